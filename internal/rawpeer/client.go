// Package rawpeer implements protocol-level Engine.IO v4 / Socket.IO v5 peers that do
// NOT use the repository's code: long-polling over net/http, WebSocket over
// nhooyr.io/websocket, framing through refcodec. They are the observers "on the wire".
package rawpeer

import (
	"bytes"
	"context"
	"encoding/json"
	"errors"
	"fmt"
	"io"
	"net"
	"net/http"
	"net/url"
	"strings"
	"sync"
	"sync/atomic"
	"time"

	"nhooyr.io/websocket"

	"sioverif/internal/refcodec"
)

var mono = time.Now()

// Now returns monotonic nanoseconds since process start (one clock for all recorders).
func Now() int64 { return int64(time.Since(mono)) }

type OpenInfo struct {
	SID          string   `json:"sid"`
	Upgrades     []string `json:"upgrades"`
	PingInterval int64    `json:"pingInterval"`
	PingTimeout  int64    `json:"pingTimeout"`
	MaxPayload   int64    `json:"maxPayload"`
}

// Rx is one received Engine.IO packet with its arrival order and time.
type Rx struct {
	Seq       int64
	At        int64
	Transport string
	P         refcodec.EPacket
}

// Client is a raw Engine.IO client.
type Client struct {
	Base      string // http://host:port/socket.io/
	Open      OpenInfo
	Transport string // current transport: "polling" | "websocket"
	NoPong    atomic.Bool
	// Extra query parameters (e.g. b64=1).
	http *http.Client

	mu       sync.Mutex
	ws       *websocket.Conn
	wsWrite  sync.Mutex
	sendMu   sync.Mutex // serialises Send with the UPGRADE step of Upgrade
	rxSeq    int64
	rx       []Rx
	rxCond   *sync.Cond
	closed   bool
	closeWhy string
	pollStop chan struct{}
	pollDone chan struct{}
	Pings    atomic.Int64
}

func newHTTPClient() *http.Client {
	tr := &http.Transport{
		MaxIdleConnsPerHost: 8,
		DialContext:         (&net.Dialer{Timeout: 10 * time.Second}).DialContext,
	}
	return &http.Client{Transport: tr, Timeout: 0}
}

func (c *Client) url(transport string, extra string) string {
	u := c.Base + "?EIO=4&transport=" + transport
	if c.Open.SID != "" {
		u += "&sid=" + url.QueryEscape(c.Open.SID)
	}
	if extra != "" {
		u += "&" + extra
	}
	return u
}

func wsURL(u string) string {
	return "ws" + strings.TrimPrefix(u, "http")
}

// Dial performs the Engine.IO handshake over the given transport.
func Dial(base string, transport string) (*Client, error) {
	if !strings.HasSuffix(base, "/") {
		base += "/"
	}
	c := &Client{Base: base, Transport: transport, http: newHTTPClient()}
	c.rxCond = sync.NewCond(&c.mu)
	switch transport {
	case "websocket":
		ctx, cancel := context.WithTimeout(context.Background(), 15*time.Second)
		defer cancel()
		conn, _, err := websocket.Dial(ctx, wsURL(c.url("websocket", "")), &websocket.DialOptions{CompressionMode: websocket.CompressionDisabled})
		if err != nil {
			return nil, err
		}
		conn.SetReadLimit(-1)
		c.ws = conn
		mt, data, err := conn.Read(ctx)
		if err != nil {
			return nil, err
		}
		p, err := refcodec.DecodeEIO(data, mt == websocket.MessageBinary)
		if err != nil || p.Type != refcodec.EOpen {
			return nil, fmt.Errorf("rawpeer: expected OPEN, got %v (%v)", p, err)
		}
		if err := json.Unmarshal(p.Data, &c.Open); err != nil {
			return nil, err
		}
		go c.wsLoop(conn)
	case "polling":
		ps, status, err := c.pollOnce(15 * time.Second)
		if err != nil {
			return nil, err
		}
		if status != 200 || len(ps) == 0 || ps[0].Type != refcodec.EOpen {
			return nil, fmt.Errorf("rawpeer: polling handshake: status %d packets %v", status, ps)
		}
		if err := json.Unmarshal(ps[0].Data, &c.Open); err != nil {
			return nil, err
		}
		c.deliver("polling", ps[1:])
		c.pollStop = make(chan struct{})
		c.pollDone = make(chan struct{})
		go c.pollLoop()
	default:
		return nil, fmt.Errorf("rawpeer: unknown transport %q", transport)
	}
	return c, nil
}

func (c *Client) deliver(transport string, ps []refcodec.EPacket) {
	var pong bool
	c.mu.Lock()
	for _, p := range ps {
		c.rxSeq++
		c.rx = append(c.rx, Rx{Seq: c.rxSeq, At: Now(), Transport: transport, P: p})
		if p.Type == refcodec.EPing {
			c.Pings.Add(1)
			pong = true
		}
		if p.Type == refcodec.EClose {
			c.closed = true
			c.closeWhy = "close packet"
		}
	}
	c.rxCond.Broadcast()
	c.mu.Unlock()
	if pong && !c.NoPong.Load() {
		go c.Send(refcodec.EPacket{Type: refcodec.EPong})
	}
}

func (c *Client) markClosed(why string) {
	c.mu.Lock()
	if !c.closed {
		c.closed = true
		c.closeWhy = why
	}
	c.rxCond.Broadcast()
	c.mu.Unlock()
}

func (c *Client) wsLoop(conn *websocket.Conn) {
	for {
		mt, data, err := conn.Read(context.Background())
		if err != nil {
			c.mu.Lock()
			cur := c.ws == conn
			c.mu.Unlock()
			if cur {
				c.markClosed("ws read: " + err.Error())
			}
			return
		}
		p, err := refcodec.DecodeEIO(data, mt == websocket.MessageBinary)
		if err != nil {
			c.markClosed("undecodable frame from server")
			return
		}
		c.deliver("websocket", []refcodec.EPacket{p})
	}
}

func (c *Client) pollOnce(timeout time.Duration) ([]refcodec.EPacket, int, error) {
	ctx, cancel := context.WithTimeout(context.Background(), timeout)
	defer cancel()
	req, _ := http.NewRequestWithContext(ctx, "GET", c.url("polling", ""), nil)
	resp, err := c.http.Do(req)
	if err != nil {
		return nil, 0, err
	}
	defer resp.Body.Close()
	body, err := io.ReadAll(resp.Body)
	if err != nil {
		return nil, resp.StatusCode, err
	}
	if resp.StatusCode != 200 {
		return nil, resp.StatusCode, nil
	}
	ps, err := refcodec.DecodePayload(body)
	return ps, resp.StatusCode, err
}

func (c *Client) pollLoop() {
	defer close(c.pollDone)
	for {
		select {
		case <-c.pollStop:
			return
		default:
		}
		ps, status, err := c.pollOnce(120 * time.Second)
		select {
		case <-c.pollStop:
			// A poll released during/after an upgrade still delivers its packets.
			if err == nil && status == 200 {
				c.deliver("polling", ps)
			}
			return
		default:
		}
		if err != nil {
			c.markClosed("poll: " + err.Error())
			return
		}
		if status != 200 {
			c.markClosed(fmt.Sprintf("poll: HTTP %d", status))
			return
		}
		c.deliver("polling", ps)
		if c.IsClosed() {
			return
		}
	}
}

// Send transmits packets on the current transport (ws: one frame each; polling: one POST).
func (c *Client) Send(ps ...refcodec.EPacket) error {
	// A compliant client does not write on the old transport once it has sent UPGRADE: a send either
	// completes on polling before the UPGRADE packet is written, or waits and goes over the websocket.
	c.sendMu.Lock()
	defer c.sendMu.Unlock()
	c.mu.Lock()
	ws := c.ws
	tr := c.Transport
	c.mu.Unlock()
	if tr == "websocket" {
		c.wsWrite.Lock()
		defer c.wsWrite.Unlock()
		for _, p := range ps {
			mt := websocket.MessageText
			if p.Binary {
				mt = websocket.MessageBinary
			}
			ctx, cancel := context.WithTimeout(context.Background(), 30*time.Second)
			err := ws.Write(ctx, mt, refcodec.EncodeEIO(p, true))
			cancel()
			if err != nil {
				return err
			}
		}
		return nil
	}
	status, err := c.PostRaw(refcodec.EncodePayload(ps), false)
	if err != nil {
		return err
	}
	if status != 200 {
		return fmt.Errorf("rawpeer: POST status %d", status)
	}
	return nil
}

type chunkedReader struct{ r io.Reader }

func (c chunkedReader) Read(p []byte) (int, error) { return c.r.Read(p) }

// PostRaw posts an arbitrary body on the polling transport. With chunked=true no
// Content-Length is declared (Transfer-Encoding: chunked).
func (c *Client) PostRaw(body []byte, chunked bool) (int, error) {
	var rd io.Reader = bytes.NewReader(body)
	if chunked {
		rd = chunkedReader{r: rd}
	}
	ctx, cancel := context.WithTimeout(context.Background(), 60*time.Second)
	defer cancel()
	req, err := http.NewRequestWithContext(ctx, "POST", c.url("polling", ""), rd)
	if err != nil {
		return 0, err
	}
	if chunked {
		req.ContentLength = -1
	}
	req.Header.Set("Content-Type", "text/plain; charset=UTF-8")
	resp, err := c.http.Do(req)
	if err != nil {
		return 0, err
	}
	defer resp.Body.Close()
	io.Copy(io.Discard, resp.Body)
	return resp.StatusCode, nil
}

// PostJSONP posts an Engine.IO payload the JSON-P way: query parameter j=0, form body d=<payload>.
// With chunked=true no Content-Length is declared. The returned size is the size of the HTTP body.
func (c *Client) PostJSONP(payload []byte, chunked bool) (status int, bodyLen int, err error) {
	body := []byte("d=" + url.QueryEscape(string(payload)))
	var rd io.Reader = bytes.NewReader(body)
	if chunked {
		rd = chunkedReader{r: rd}
	}
	ctx, cancel := context.WithTimeout(context.Background(), 60*time.Second)
	defer cancel()
	req, err := http.NewRequestWithContext(ctx, "POST", c.url("polling", "j=0"), rd)
	if err != nil {
		return 0, len(body), err
	}
	if chunked {
		req.ContentLength = -1
	}
	req.Header.Set("Content-Type", "application/x-www-form-urlencoded")
	resp, err := c.http.Do(req)
	if err != nil {
		return 0, len(body), err
	}
	defer resp.Body.Close()
	io.Copy(io.Discard, resp.Body)
	return resp.StatusCode, len(body), nil
}

// SendMsg sends one text MESSAGE packet.
func (c *Client) SendMsg(data string) error {
	return c.Send(refcodec.EPacket{Type: refcodec.EMessage, Data: []byte(data)})
}

// SendFrames sends Socket.IO frames (first text, rest binary) as consecutive MESSAGE packets in one Send.
func (c *Client) SendFrames(frames [][]byte) error {
	ps := make([]refcodec.EPacket, len(frames))
	for i, f := range frames {
		ps[i] = refcodec.EPacket{Type: refcodec.EMessage, Binary: i > 0, Data: f}
	}
	return c.Send(ps...)
}

func (c *Client) IsClosed() bool {
	c.mu.Lock()
	defer c.mu.Unlock()
	return c.closed
}

func (c *Client) CloseReason() string {
	c.mu.Lock()
	defer c.mu.Unlock()
	return c.closeWhy
}

// Received returns a snapshot of everything received so far.
func (c *Client) Received() []Rx {
	c.mu.Lock()
	defer c.mu.Unlock()
	return append([]Rx(nil), c.rx...)
}

var ErrTimeout = errors.New("rawpeer: timeout")
var ErrClosed = errors.New("rawpeer: connection closed")

// WaitFor blocks until a packet with Seq > after satisfies pred (returns it), the
// connection is closed, or the timeout elapses.
func (c *Client) WaitFor(after int64, timeout time.Duration, pred func(Rx) bool) (Rx, error) {
	deadline := time.Now().Add(timeout)
	timer := time.AfterFunc(timeout, func() { c.mu.Lock(); c.rxCond.Broadcast(); c.mu.Unlock() })
	defer timer.Stop()
	c.mu.Lock()
	defer c.mu.Unlock()
	idx := 0
	for {
		for ; idx < len(c.rx); idx++ {
			if c.rx[idx].Seq > after && pred(c.rx[idx]) {
				return c.rx[idx], nil
			}
		}
		if c.closed {
			return Rx{}, ErrClosed
		}
		if time.Now().After(deadline) {
			return Rx{}, ErrTimeout
		}
		c.rxCond.Wait()
	}
}

// WaitClosed waits until the connection is closed by the peer.
func (c *Client) WaitClosed(timeout time.Duration) bool {
	deadline := time.Now().Add(timeout)
	timer := time.AfterFunc(timeout, func() { c.mu.Lock(); c.rxCond.Broadcast(); c.mu.Unlock() })
	defer timer.Stop()
	c.mu.Lock()
	defer c.mu.Unlock()
	for !c.closed {
		if time.Now().After(deadline) {
			return false
		}
		c.rxCond.Wait()
	}
	return true
}

// LastSeq returns the sequence number of the newest received packet.
func (c *Client) LastSeq() int64 {
	c.mu.Lock()
	defer c.mu.Unlock()
	return c.rxSeq
}

// Upgrade performs the polling -> websocket upgrade per the protocol:
// open ws with sid, 2probe, wait 3probe, 5.
func (c *Client) Upgrade() error {
	ctx, cancel := context.WithTimeout(context.Background(), 60*time.Second)
	defer cancel()
	// Pause polling first: the in-flight poll still delivers its packets, no new poll is started.
	c.mu.Lock()
	select {
	case <-c.pollStop:
		c.mu.Unlock()
		return fmt.Errorf("rawpeer: connection already closed")
	default:
		close(c.pollStop)
	}
	c.mu.Unlock()
	conn, _, err := websocket.Dial(ctx, wsURL(c.url("websocket", "")), &websocket.DialOptions{CompressionMode: websocket.CompressionDisabled})
	if err != nil {
		return err
	}
	conn.SetReadLimit(-1)
	if err := conn.Write(ctx, websocket.MessageText, []byte("2probe")); err != nil {
		return err
	}
	_, data, err := conn.Read(ctx)
	if err != nil {
		return err
	}
	if string(data) != "3probe" {
		return fmt.Errorf("rawpeer: expected 3probe, got %q", data)
	}
	// Wait for the pending poll to be released (the server answers it with a NOOP).
	select {
	case <-c.pollDone:
	case <-time.After(45 * time.Second):
		return fmt.Errorf("rawpeer: pending poll not released during upgrade")
	}
	c.sendMu.Lock()
	defer c.sendMu.Unlock()
	if err := conn.Write(ctx, websocket.MessageText, []byte("5")); err != nil {
		return err
	}
	c.mu.Lock()
	c.ws = conn
	c.Transport = "websocket"
	c.mu.Unlock()
	go c.wsLoop(conn)
	return nil
}

// Close closes the transport abruptly (TCP-level for ws, stop polling for polling).
func (c *Client) Close() {
	c.mu.Lock()
	ws := c.ws
	tr := c.Transport
	c.mu.Unlock()
	if tr == "websocket" && ws != nil {
		ws.Close(websocket.StatusNormalClosure, "")
	} else if c.pollStop != nil {
		c.mu.Lock()
		select {
		case <-c.pollStop:
		default:
			close(c.pollStop)
		}
		c.mu.Unlock()
		// Tell the server (best effort).
		c.PostRaw([]byte("1"), false)
	}
	c.markClosed("closed locally")
	c.http.CloseIdleConnections()
}

// Abort drops the connection without any protocol-level goodbye.
func (c *Client) Abort() {
	c.mu.Lock()
	ws := c.ws
	c.mu.Unlock()
	if ws != nil {
		ws.CloseNow()
	}
	if c.pollStop != nil {
		c.mu.Lock()
		select {
		case <-c.pollStop:
		default:
			close(c.pollStop)
		}
		c.mu.Unlock()
	}
	c.markClosed("aborted locally")
	c.http.CloseIdleConnections()
}
