package rawpeer

import (
	"encoding/json"
	"fmt"
	"sync"
	"time"

	"sioverif/internal/refcodec"
)

// SPacket is a reassembled Socket.IO packet with the arrival sequence number of
// its last frame.
type SPacket struct {
	Seq    int64 // Rx.Seq of the last frame
	At     int64
	Frames [][]byte
	P      *refcodec.Packet
}

// SIO layers Socket.IO packet reassembly (strict, via refcodec.Assembler) over a raw client.
type SIO struct {
	C *Client

	mu       sync.Mutex
	consumed int
	asm      refcodec.Assembler
	packets  []SPacket
	// ProtoErr is set when the MESSAGE frame sequence violated the protocol.
	ProtoErr error
}

func NewSIO(c *Client) *SIO { return &SIO{C: c} }

// DialSIO dials Engine.IO and wraps it.
func DialSIO(base, transport string) (*SIO, error) {
	c, err := Dial(base, transport)
	if err != nil {
		return nil, err
	}
	return NewSIO(c), nil
}

// pump feeds newly received MESSAGE frames to the assembler.
func (s *SIO) pump() {
	rx := s.C.Received()
	s.mu.Lock()
	defer s.mu.Unlock()
	for ; s.consumed < len(rx); s.consumed++ {
		r := rx[s.consumed]
		if r.P.Type != refcodec.EMessage {
			continue // ping/pong/noop between frames are legal
		}
		if s.ProtoErr != nil {
			continue
		}
		p, frames, err := s.asm.Feed(r.P.Binary, r.P.Data)
		if err != nil {
			s.ProtoErr = fmt.Errorf("at rx seq %d: %w", r.Seq, err)
			continue
		}
		if p != nil {
			s.packets = append(s.packets, SPacket{Seq: r.Seq, At: r.At, Frames: frames, P: p})
		}
	}
}

// Packets returns all Socket.IO packets reassembled so far.
func (s *SIO) Packets() []SPacket {
	s.pump()
	s.mu.Lock()
	defer s.mu.Unlock()
	return append([]SPacket(nil), s.packets...)
}

func (s *SIO) Err() error {
	s.pump()
	s.mu.Lock()
	defer s.mu.Unlock()
	return s.ProtoErr
}

// WaitPacket waits for a packet (index >= from in Packets()) that satisfies pred.
func (s *SIO) WaitPacket(from int, timeout time.Duration, pred func(*refcodec.Packet) bool) (int, SPacket, error) {
	deadline := time.Now().Add(timeout)
	for {
		ps := s.Packets()
		for i := from; i < len(ps); i++ {
			if pred(ps[i].P) {
				return i, ps[i], nil
			}
		}
		if s.C.IsClosed() {
			// one more pump to drain
			ps = s.Packets()
			for i := from; i < len(ps); i++ {
				if pred(ps[i].P) {
					return i, ps[i], nil
				}
			}
			return 0, SPacket{}, ErrClosed
		}
		if time.Now().After(deadline) {
			return 0, SPacket{}, ErrTimeout
		}
		last := s.C.LastSeq()
		remain := time.Until(deadline)
		if remain > 200*time.Millisecond {
			remain = 200 * time.Millisecond
		}
		s.C.WaitFor(last, remain, func(Rx) bool { return true })
	}
}

// SendPacket encodes p with the reference encoder and sends it.
func (s *SIO) SendPacket(p *refcodec.Packet) error {
	frames, err := refcodec.EncodeSIO(p)
	if err != nil {
		return err
	}
	return s.C.SendFrames(frames)
}

// ConnectResult is the outcome of a CONNECT.
type ConnectResult struct {
	OK      bool
	SID     string
	PID     string
	ErrData any // CONNECT_ERROR payload
	Index   int // index of the reply in Packets()
}

// Connect sends CONNECT for nsp with the given auth (nil = none) and waits for the reply.
func (s *SIO) Connect(nsp string, auth map[string]any, timeout time.Duration) (*ConnectResult, error) {
	from := len(s.Packets())
	p := &refcodec.Packet{Type: refcodec.Connect, Namespace: nsp}
	if auth != nil {
		p.HasData = true
		m := map[string]any{}
		for k, v := range auth {
			m[k] = v
		}
		p.Data = m
	}
	if err := s.SendPacket(p); err != nil {
		return nil, err
	}
	idx, sp, err := s.WaitPacket(from, timeout, func(q *refcodec.Packet) bool {
		return q.Namespace == normNsp(nsp) && (q.Type == refcodec.Connect || q.Type == refcodec.ConnectError)
	})
	if err != nil {
		return nil, err
	}
	res := &ConnectResult{Index: idx}
	if sp.P.Type == refcodec.Connect {
		res.OK = true
		if m, ok := sp.P.Data.(map[string]any); ok {
			res.SID, _ = m["sid"].(string)
			res.PID, _ = m["pid"].(string)
		}
	} else {
		res.ErrData = sp.P.Data
	}
	return res, nil
}

func normNsp(n string) string {
	if n == "" {
		return "/"
	}
	return n
}

// Emit sends an EVENT (args are canonical trees; refcodec.Bin leaves become attachments).
func (s *SIO) Emit(nsp string, id *uint64, event string, args ...any) error {
	data := append([]any{event}, args...)
	return s.SendPacket(&refcodec.Packet{Type: refcodec.Event, Namespace: nsp, ID: id, HasData: true, Data: data})
}

// Ack sends an ACK.
func (s *SIO) Ack(nsp string, id uint64, args ...any) error {
	data := append([]any{}, args...)
	return s.SendPacket(&refcodec.Packet{Type: refcodec.Ack, Namespace: nsp, ID: &id, HasData: true, Data: data})
}

// EventName returns the event name of an EVENT packet ("" otherwise).
func EventName(p *refcodec.Packet) string {
	if p.Type != refcodec.Event && p.Type != refcodec.BinaryEvent {
		return ""
	}
	arr, _ := p.Data.([]any)
	if len(arr) == 0 {
		return ""
	}
	s, _ := arr[0].(string)
	return s
}

// Args returns the arguments of an EVENT (without name) or ACK packet.
func Args(p *refcodec.Packet) []any {
	arr, _ := p.Data.([]any)
	if p.Type == refcodec.Event || p.Type == refcodec.BinaryEvent {
		if len(arr) > 0 {
			return arr[1:]
		}
		return nil
	}
	return arr
}

// Num converts a canonical number to int64 (ok=false when not an integer number).
func Num(v any) (int64, bool) {
	if n, ok := v.(json.Number); ok {
		i, err := n.Int64()
		return i, err == nil
	}
	if f, ok := v.(float64); ok {
		return int64(f), f == float64(int64(f))
	}
	return 0, false
}
