package rawpeer

import (
	"context"
	"encoding/json"
	"fmt"
	"io"
	"net"
	"net/http"
	"sync"
	"sync/atomic"
	"time"

	"nhooyr.io/websocket"

	"sioverif/internal/refcodec"
)

// Server is a raw Engine.IO v4 server (long-polling, WebSocket, polling->websocket
// upgrade) that does not use the repository's code. It plays the Socket.IO server
// for the Go client under test so that the wire is observable.
type Server struct {
	PingInterval time.Duration // announced; pings are only sent when SendPings is set
	PingTimeout  time.Duration
	MaxPayload   int64
	Upgrades     []string
	SendPings    bool
	// AutoConnect answers every Socket.IO CONNECT with 40{"sid":...} (default true via NewServer).
	AutoConnect bool
	// OnConnect, when set, decides the reply to a CONNECT: return false to not reply at all.
	OnConnect func(s *Session, p *refcodec.Packet) bool
	OnSession func(s *Session)

	Addr string
	URL  string
	http *http.Server
	l    net.Listener

	mu       sync.Mutex
	sessions map[string]*Session
	order    []*Session
	sidSeq   atomic.Int64
	once     sync.Once
	// Refuse makes every request fail with 503 (simulates an unreachable server without closing the listener).
	Refuse atomic.Bool
}

// Session is one Engine.IO session on the raw server.
type Session struct {
	srv *Server
	SID string

	mu        sync.Mutex
	cond      *sync.Cond
	transport string
	ws        *websocket.Conn
	wsWrite   sync.Mutex
	out       []refcodec.EPacket // polling out-queue
	rxSeq     int64
	rx        []Rx
	closed    bool
	consumed  int
	asm       refcodec.Assembler
	packets   []SPacket
	protoErr  error
	sioSeq    atomic.Int64
}

// NewServer starts a raw server on addr ("" = free loopback port).
func NewServer(addr string) (*Server, error) {
	if addr == "" {
		addr = "127.0.0.1:0"
	}
	var l net.Listener
	var err error
	for i := 0; i < 100; i++ {
		l, err = net.Listen("tcp", addr)
		if err == nil {
			break
		}
		time.Sleep(20 * time.Millisecond)
	}
	if err != nil {
		return nil, err
	}
	s := &Server{PingInterval: 10 * time.Minute, PingTimeout: 10 * time.Minute, MaxPayload: 1e6,
		Upgrades: []string{"websocket"}, AutoConnect: true, sessions: map[string]*Session{}, l: l}
	s.Addr = l.Addr().String()
	s.URL = "http://" + s.Addr + "/socket.io/"
	mux := http.NewServeMux()
	mux.HandleFunc("/socket.io/", s.serve)
	s.http = &http.Server{Handler: mux}
	go s.http.Serve(l)
	return s, nil
}

// Close stops the listener and drops every connection.
func (s *Server) Close() {
	s.once.Do(func() {
		s.http.Close()
		s.mu.Lock()
		ss := append([]*Session(nil), s.order...)
		s.mu.Unlock()
		for _, x := range ss {
			x.drop()
		}
	})
}

// Sessions returns all sessions in creation order.
func (s *Server) Sessions() []*Session {
	s.mu.Lock()
	defer s.mu.Unlock()
	return append([]*Session(nil), s.order...)
}

// WaitSession waits until at least n sessions exist and returns the n-th (1-based).
func (s *Server) WaitSession(n int, timeout time.Duration) *Session {
	deadline := time.Now().Add(timeout)
	for {
		s.mu.Lock()
		if len(s.order) >= n {
			x := s.order[n-1]
			s.mu.Unlock()
			return x
		}
		s.mu.Unlock()
		if time.Now().After(deadline) {
			return nil
		}
		time.Sleep(time.Millisecond)
	}
}

func (s *Server) newSession(transport string) *Session {
	sid := fmt.Sprintf("raw-%d-%d", time.Now().UnixNano()%1000000, s.sidSeq.Add(1))
	x := &Session{srv: s, SID: sid, transport: transport}
	x.cond = sync.NewCond(&x.mu)
	s.mu.Lock()
	s.sessions[sid] = x
	s.order = append(s.order, x)
	s.mu.Unlock()
	return x
}

func (s *Server) openPacket(x *Session, transport string) refcodec.EPacket {
	ups := []string{}
	if transport == "polling" {
		ups = s.Upgrades
	}
	b, _ := json.Marshal(OpenInfo{SID: x.SID, Upgrades: ups, PingInterval: s.PingInterval.Milliseconds(),
		PingTimeout: s.PingTimeout.Milliseconds(), MaxPayload: s.MaxPayload})
	return refcodec.EPacket{Type: refcodec.EOpen, Data: b}
}

func (s *Server) serve(w http.ResponseWriter, r *http.Request) {
	if s.Refuse.Load() {
		w.WriteHeader(http.StatusServiceUnavailable)
		return
	}
	q := r.URL.Query()
	tr := q.Get("transport")
	sid := q.Get("sid")
	if sid == "" {
		switch tr {
		case "polling":
			x := s.newSession("polling")
			body := refcodec.EncodePayload([]refcodec.EPacket{s.openPacket(x, "polling")})
			w.Header().Set("Content-Type", "text/plain; charset=UTF-8")
			w.Write(body)
			s.started(x)
		case "websocket":
			conn, err := websocket.Accept(w, r, &websocket.AcceptOptions{CompressionMode: websocket.CompressionDisabled})
			if err != nil {
				return
			}
			conn.SetReadLimit(-1)
			x := s.newSession("websocket")
			x.ws = conn
			conn.Write(context.Background(), websocket.MessageText, refcodec.EncodeEIO(s.openPacket(x, "websocket"), true))
			s.started(x)
			x.wsLoop(conn)
		default:
			w.WriteHeader(400)
		}
		return
	}
	s.mu.Lock()
	x := s.sessions[sid]
	s.mu.Unlock()
	if x == nil || x.isClosed() {
		w.WriteHeader(400)
		w.Write([]byte(`{"code":1,"message":"Session ID unknown"}`))
		return
	}
	switch {
	case tr == "polling" && r.Method == "GET":
		ps := x.takeOut(60 * time.Second)
		if ps == nil {
			ps = []refcodec.EPacket{{Type: refcodec.ENoop}}
		}
		w.Header().Set("Content-Type", "text/plain; charset=UTF-8")
		w.Write(refcodec.EncodePayload(ps))
	case tr == "polling" && r.Method == "POST":
		body, err := io.ReadAll(r.Body)
		if err != nil {
			w.WriteHeader(400)
			return
		}
		ps, err := refcodec.DecodePayload(body)
		if err != nil {
			w.WriteHeader(400)
			x.drop()
			return
		}
		x.deliver("polling", ps)
		w.Write([]byte("ok"))
	case tr == "websocket":
		conn, err := websocket.Accept(w, r, &websocket.AcceptOptions{CompressionMode: websocket.CompressionDisabled})
		if err != nil {
			return
		}
		conn.SetReadLimit(-1)
		x.upgrade(conn)
	default:
		w.WriteHeader(400)
	}
}

func (s *Server) started(x *Session) {
	if s.OnSession != nil {
		go s.OnSession(x)
	}
	if s.SendPings {
		go func() {
			for {
				time.Sleep(s.PingInterval)
				if x.isClosed() {
					return
				}
				x.Send(refcodec.EPacket{Type: refcodec.EPing})
			}
		}()
	}
}

func (x *Session) isClosed() bool {
	x.mu.Lock()
	defer x.mu.Unlock()
	return x.closed
}

// IsClosed reports whether the session ended (client close packet, transport loss, or Drop).
func (x *Session) IsClosed() bool { return x.isClosed() }

func (x *Session) Transport() string {
	x.mu.Lock()
	defer x.mu.Unlock()
	return x.transport
}

func (x *Session) deliver(transport string, ps []refcodec.EPacket) {
	var connects []*refcodec.Packet
	x.mu.Lock()
	for _, p := range ps {
		x.rxSeq++
		x.rx = append(x.rx, Rx{Seq: x.rxSeq, At: Now(), Transport: transport, P: p})
		if p.Type == refcodec.EClose {
			x.closed = true
		}
		if p.Type == refcodec.EMessage && !p.Binary && len(p.Data) > 0 && p.Data[0] == '0' {
			if sp, err := refcodec.DecodeSIO([][]byte{p.Data}); err == nil && sp.Type == refcodec.Connect {
				connects = append(connects, sp)
			}
		}
	}
	x.cond.Broadcast()
	x.mu.Unlock()
	for _, cp := range connects {
		reply := x.srv.AutoConnect
		if x.srv.OnConnect != nil {
			reply = x.srv.OnConnect(x, cp)
		}
		if reply {
			x.ReplyConnect(cp.Namespace)
		}
	}
}

// ReplyConnect sends the CONNECT acknowledgement for nsp.
func (x *Session) ReplyConnect(nsp string) {
	sid := fmt.Sprintf("%s-s%d", x.SID, x.sioSeq.Add(1))
	frames, _ := refcodec.EncodeSIO(&refcodec.Packet{Type: refcodec.Connect, Namespace: nsp, HasData: true, Data: map[string]any{"sid": sid}})
	x.SendFrames(frames)
}

func (x *Session) wsLoop(conn *websocket.Conn) {
	for {
		mt, data, err := conn.Read(context.Background())
		if err != nil {
			x.mu.Lock()
			if x.ws == conn {
				x.closed = true
			}
			x.cond.Broadcast()
			x.mu.Unlock()
			return
		}
		p, err := refcodec.DecodeEIO(data, mt == websocket.MessageBinary)
		if err != nil {
			x.drop()
			return
		}
		x.deliver("websocket", []refcodec.EPacket{p})
	}
}

func (x *Session) upgrade(conn *websocket.Conn) {
	ctx := context.Background()
	_, data, err := conn.Read(ctx)
	if err != nil || string(data) != "2probe" {
		conn.CloseNow()
		return
	}
	conn.Write(ctx, websocket.MessageText, []byte("3probe"))
	// keep releasing pending polls until the client has switched (as the reference server does every 100 ms)
	stopNoop := make(chan struct{})
	go func() {
		for {
			x.mu.Lock()
			if x.transport == "polling" && len(x.out) == 0 {
				x.out = append(x.out, refcodec.EPacket{Type: refcodec.ENoop})
				x.cond.Broadcast()
			}
			x.mu.Unlock()
			select {
			case <-stopNoop:
				return
			case <-time.After(50 * time.Millisecond):
			}
		}
	}()
	_, data, err = conn.Read(ctx)
	close(stopNoop)
	if err != nil || string(data) != "5" {
		conn.CloseNow()
		return
	}
	x.mu.Lock()
	x.ws = conn
	x.transport = "websocket"
	pending := x.out
	x.out = nil
	x.cond.Broadcast()
	x.mu.Unlock()
	for _, p := range pending {
		if p.Type != refcodec.ENoop {
			x.Send(p)
		}
	}
	x.wsLoop(conn)
}

func (x *Session) takeOut(timeout time.Duration) []refcodec.EPacket {
	timer := time.AfterFunc(timeout, func() { x.mu.Lock(); x.cond.Broadcast(); x.mu.Unlock() })
	defer timer.Stop()
	deadline := time.Now().Add(timeout)
	x.mu.Lock()
	defer x.mu.Unlock()
	for len(x.out) == 0 && !x.closed && x.transport == "polling" && time.Now().Before(deadline) {
		x.cond.Wait()
	}
	ps := x.out
	x.out = nil
	return ps
}

// Send transmits Engine.IO packets to the client on the current transport.
func (x *Session) Send(ps ...refcodec.EPacket) {
	x.mu.Lock()
	if x.transport == "polling" {
		x.out = append(x.out, ps...)
		x.cond.Broadcast()
		x.mu.Unlock()
		return
	}
	ws := x.ws
	x.mu.Unlock()
	x.wsWrite.Lock()
	defer x.wsWrite.Unlock()
	for _, p := range ps {
		mt := websocket.MessageText
		if p.Binary {
			mt = websocket.MessageBinary
		}
		ctx, cancel := context.WithTimeout(context.Background(), 30*time.Second)
		ws.Write(ctx, mt, refcodec.EncodeEIO(p, true))
		cancel()
	}
}

// SendFrames sends Socket.IO frames (first text, rest binary) as MESSAGE packets.
func (x *Session) SendFrames(frames [][]byte) {
	ps := make([]refcodec.EPacket, len(frames))
	for i, f := range frames {
		ps[i] = refcodec.EPacket{Type: refcodec.EMessage, Binary: i > 0, Data: f}
	}
	x.Send(ps...)
}

// SendPacket encodes a Socket.IO packet with the reference encoder and sends it.
func (x *Session) SendPacket(p *refcodec.Packet) {
	frames, err := refcodec.EncodeSIO(p)
	if err == nil {
		x.SendFrames(frames)
	}
}

// Emit sends an EVENT to the client.
func (x *Session) Emit(nsp string, id *uint64, event string, args ...any) {
	x.SendPacket(&refcodec.Packet{Type: refcodec.Event, Namespace: nsp, ID: id, HasData: true, Data: append([]any{event}, args...)})
}

// drop kills the session's transport without a protocol goodbye.
func (x *Session) drop() {
	x.mu.Lock()
	x.closed = true
	ws := x.ws
	x.cond.Broadcast()
	x.mu.Unlock()
	if ws != nil {
		ws.CloseNow()
	}
}

// Drop kills the session's transport (the client sees a transport error/close).
func (x *Session) Drop() { x.drop() }

// Received returns the Engine.IO packets received so far.
func (x *Session) Received() []Rx {
	x.mu.Lock()
	defer x.mu.Unlock()
	return append([]Rx(nil), x.rx...)
}

// Packets returns the Socket.IO packets reassembled (strictly) from the MESSAGE frames received so far.
func (x *Session) Packets() ([]SPacket, error) {
	x.mu.Lock()
	defer x.mu.Unlock()
	for ; x.consumed < len(x.rx); x.consumed++ {
		r := x.rx[x.consumed]
		if r.P.Type != refcodec.EMessage || x.protoErr != nil {
			continue
		}
		p, frames, err := x.asm.Feed(r.P.Binary, r.P.Data)
		if err != nil {
			x.protoErr = fmt.Errorf("at rx seq %d: %w", r.Seq, err)
			continue
		}
		if p != nil {
			x.packets = append(x.packets, SPacket{Seq: r.Seq, At: r.At, Frames: frames, P: p})
		}
	}
	return append([]SPacket(nil), x.packets...), x.protoErr
}

// WaitPacket waits for a reassembled packet with index >= from satisfying pred.
func (x *Session) WaitPacket(from int, timeout time.Duration, pred func(*refcodec.Packet) bool) (int, SPacket, error) {
	deadline := time.Now().Add(timeout)
	for {
		ps, _ := x.Packets()
		for i := from; i < len(ps); i++ {
			if pred(ps[i].P) {
				return i, ps[i], nil
			}
		}
		if x.isClosed() {
			return 0, SPacket{}, ErrClosed
		}
		if time.Now().After(deadline) {
			return 0, SPacket{}, ErrTimeout
		}
		x.mu.Lock()
		n := len(x.rx)
		t := time.AfterFunc(100*time.Millisecond, func() { x.mu.Lock(); x.cond.Broadcast(); x.mu.Unlock() })
		for len(x.rx) == n && !x.closed {
			x.cond.Wait()
			break
		}
		t.Stop()
		x.mu.Unlock()
	}
}
