// Package gen holds the seeded generators (argument trees, event names,
// namespaces, ...) and the reflect-based canonicaliser that maps Go values to the
// canonical trees of refcodec, following encoding/json's data model.
package gen

import (
	"encoding/json"
	"reflect"
	"sort"
	"strconv"
	"strings"

	"sioverif/internal/refcodec"
)

type sioBinary interface{ SocketIOBinary() bool }

var jsonNumberType = reflect.TypeOf(json.Number(""))

// CanonOf maps a Go value to a canonical tree (see refcodec): the tree a JSON
// peer would see if every Binary leaf were transported as an attachment.
// Plain []byte is treated like Binary (the decoder hands attachments back as
// []byte in map positions).
func CanonOf(v any) any {
	return canon(reflect.ValueOf(v))
}

func canon(rv reflect.Value) any {
	if !rv.IsValid() {
		return refcodec.Null{}
	}
	switch rv.Kind() {
	case reflect.Interface, reflect.Ptr:
		if rv.IsNil() {
			return refcodec.Null{}
		}
		return canon(rv.Elem())
	case reflect.Bool:
		return rv.Bool()
	case reflect.Int, reflect.Int8, reflect.Int16, reflect.Int32, reflect.Int64:
		return json.Number(strconv.FormatInt(rv.Int(), 10))
	case reflect.Uint, reflect.Uint8, reflect.Uint16, reflect.Uint32, reflect.Uint64:
		return json.Number(strconv.FormatUint(rv.Uint(), 10))
	case reflect.Float32, reflect.Float64:
		return rv.Float()
	case reflect.String:
		if rv.Type() == jsonNumberType {
			return json.Number(rv.String())
		}
		return rv.String()
	case reflect.Slice:
		if rv.Type().Elem().Kind() == reflect.Uint8 {
			// Binary or plain []byte
			b := make([]byte, rv.Len())
			reflect.Copy(reflect.ValueOf(b), rv)
			return refcodec.Bin(b)
		}
		if rv.IsNil() {
			return refcodec.Null{}
		}
		out := make([]any, rv.Len())
		for i := range out {
			out[i] = canon(rv.Index(i))
		}
		return out
	case reflect.Array:
		out := make([]any, rv.Len())
		for i := range out {
			out[i] = canon(rv.Index(i))
		}
		return out
	case reflect.Map:
		if rv.IsNil() {
			return refcodec.Null{}
		}
		out := make(map[string]any, rv.Len())
		it := rv.MapRange()
		for it.Next() {
			out[keyString(it.Key())] = canon(it.Value())
		}
		return out
	case reflect.Struct:
		out := map[string]any{}
		t := rv.Type()
		for i := 0; i < t.NumField(); i++ {
			f := t.Field(i)
			if f.PkgPath != "" {
				continue
			}
			name := f.Name
			if tag, ok := f.Tag.Lookup("json"); ok {
				parts := strings.Split(tag, ",")
				if parts[0] == "-" {
					continue
				}
				if parts[0] != "" {
					name = parts[0]
				}
			}
			out[name] = canon(rv.Field(i))
		}
		return out
	}
	return "?" + rv.Type().String()
}

func keyString(k reflect.Value) string {
	switch k.Kind() {
	case reflect.String:
		return k.String()
	case reflect.Int, reflect.Int8, reflect.Int16, reflect.Int32, reflect.Int64:
		return strconv.FormatInt(k.Int(), 10)
	case reflect.Uint, reflect.Uint8, reflect.Uint16, reflect.Uint32, reflect.Uint64:
		return strconv.FormatUint(k.Uint(), 10)
	}
	return "?"
}

// BinPaths lists, for every binary leaf of a canonical tree, the chain of
// container kinds leading to it ("top" for the argument itself, "slice", "map").
func BinPaths(v any) []string {
	var out []string
	var walk func(v any, chain string)
	walk = func(v any, chain string) {
		switch x := v.(type) {
		case refcodec.Bin:
			out = append(out, chain)
		case []any:
			for _, e := range x {
				walk(e, chain+"/slice")
			}
		case map[string]any:
			keys := make([]string, 0, len(x))
			for k := range x {
				keys = append(keys, k)
			}
			sort.Strings(keys)
			for _, k := range keys {
				walk(x[k], chain+"/map")
			}
		}
	}
	walk(v, "top")
	return out
}

// CountBins counts binary leaves.
func CountBins(v any) int { return len(BinPaths(v)) }
