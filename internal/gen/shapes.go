package gen

import (
	"math"
	"math/rand"
	"reflect"
	"strings"

	sio "github.com/karagenc/socket.io-go"
)

type Binary = sio.Binary

// Struct types used as typed arguments.
type (
	S1 struct {
		A int    `json:"a"`
		B string `json:"b"`
	}
	S2 struct {
		Bin Binary `json:"bin"`
		N   int    `json:"n"`
	}
	S3 struct {
		Inner S2    `json:"inner"`
		List  []int `json:"list"`
	}
	S4 struct {
		P *S1               `json:"p"`
		M map[string]string `json:"m"`
	}
	S5 struct {
		Bins []Binary `json:"bins"`
		Name string   `json:"name"`
	}
	S6 struct {
		B1 Binary  `json:"b1"`
		B2 Binary  `json:"b2"`
		F  float64 `json:"f"`
		T  bool    `json:"t"`
	}
	// S7: the only binary leaf is reachable through a pointer-typed struct field
	S7 struct {
		Inner *S2 `json:"inner"`
		N     int `json:"n"`
	}
)

// Shape is one argument shape: a Go static type to emit, which is also the
// handler parameter type to receive it.
type Shape struct {
	Name string
	// Container class of the binary leaves as seen by the encoder:
	// "" (no binary), "top" (the argument itself), "struct-value", "ptr-struct",
	// "map", "slice".
	BinClass string
	Type     reflect.Type
	Make     func(r *rand.Rand, size int) any
}

func typeOf[T any]() reflect.Type { var p *T; return reflect.TypeOf(p).Elem() }

var runes = []rune{
	'a', 'b', 'z', 'A', '0', '9', ' ', '"', '\\', '/', ',', '-', '[', ']', '{', '}', ':', '\'',
	'\n', '\t', 0x00, 0x1e, 0x7f, 0xe9, 0xfc, 0x20ac, 0x2028, 0x2029, 0x4e16, 0xfeff, 0xfffd,
	0x1f600, 0x10348, '<', '>', '&', '%', '?', '#', '=',
}

// String returns a valid UTF-8 string of roughly n bytes from a hostile alphabet.
func String(r *rand.Rand, n int) string {
	var b strings.Builder
	for b.Len() < n {
		if n > 256 && r.Intn(4) != 0 {
			// bulk filler for large payloads
			chunk := 64 + r.Intn(64)
			if chunk > n-b.Len() {
				chunk = n - b.Len()
			}
			b.WriteString(strings.Repeat(string(rune('a'+r.Intn(26))), chunk))
			continue
		}
		b.WriteRune(runes[r.Intn(len(runes))])
	}
	return b.String()
}

// ASCII returns exactly n bytes of plain text.
func ASCII(r *rand.Rand, n int) string {
	b := make([]byte, n)
	for i := range b {
		b[i] = byte('a' + r.Intn(26))
	}
	return string(b)
}

// Bytes returns n random bytes (non-nil).
func Bytes(r *rand.Rand, n int) Binary {
	b := make([]byte, n)
	r.Read(b)
	return Binary(b)
}

func smallSize(r *rand.Rand, size int) int {
	if size <= 0 {
		return 0
	}
	return size
}

// Shapes is the registry of argument shapes.
var Shapes = []Shape{
	{"int", "", typeOf[int](), func(r *rand.Rand, _ int) any { return r.Intn(2_000_000) - 1_000_000 }},
	{"int64-53bit", "", typeOf[int64](), func(r *rand.Rand, _ int) any {
		return int64(r.Int63n(1<<53)) * int64(1-2*r.Intn(2))
	}},
	{"uint8", "", typeOf[uint8](), func(r *rand.Rand, _ int) any { return uint8(r.Intn(256)) }},
	{"float64", "", typeOf[float64](), func(r *rand.Rand, _ int) any {
		switch r.Intn(5) {
		case 0:
			return 0.0
		case 1:
			return math.MaxFloat64
		case 2:
			return math.SmallestNonzeroFloat64
		case 3:
			return -1e-7
		}
		return r.NormFloat64() * 1e6
	}},
	{"bool", "", typeOf[bool](), func(r *rand.Rand, _ int) any { return r.Intn(2) == 0 }},
	{"string", "", typeOf[string](), func(r *rand.Rand, size int) any { return String(r, smallSize(r, size)) }},
	{"nil-any", "", typeOf[any](), func(r *rand.Rand, _ int) any { return nil }},
	{"[]int", "", typeOf[[]int](), func(r *rand.Rand, size int) any {
		n := 1 + size/8
		if n > 64 {
			n = 64
		}
		out := make([]int, n)
		for i := range out {
			out[i] = r.Intn(1000)
		}
		return out
	}},
	{"[]string", "", typeOf[[]string](), func(r *rand.Rand, size int) any {
		return []string{String(r, size/2), "", String(r, size/2)}
	}},
	{"S1", "", typeOf[S1](), func(r *rand.Rand, size int) any { return S1{A: r.Intn(100), B: String(r, size)} }},
	{"*S1", "", typeOf[*S1](), func(r *rand.Rand, size int) any { return &S1{A: r.Intn(100), B: String(r, size)} }},
	{"[]S1", "", typeOf[[]S1](), func(r *rand.Rand, size int) any {
		return []S1{{A: 1, B: String(r, size/2)}, {A: 2, B: String(r, size/2)}}
	}},
	{"S4", "", typeOf[S4](), func(r *rand.Rand, size int) any {
		return S4{P: &S1{A: 7, B: String(r, size/2)}, M: map[string]string{"k": String(r, size/2), "": "empty-key"}}
	}},
	{"map-scalars", "", typeOf[map[string]any](), func(r *rand.Rand, size int) any {
		return map[string]any{"s": String(r, size), "n": float64(r.Intn(1000)), "t": true, "z": nil,
			"l": []any{float64(1), "two", false}, "m": map[string]any{"deep": map[string]any{"deeper": "x"}}}
	}},
	{"Binary", "top", typeOf[Binary](), func(r *rand.Rand, size int) any { return Bytes(r, size) }},
	{"S2", "struct-value", typeOf[S2](), func(r *rand.Rand, size int) any { return S2{Bin: Bytes(r, size), N: r.Intn(100)} }},
	{"S3", "struct-value", typeOf[S3](), func(r *rand.Rand, size int) any {
		return S3{Inner: S2{Bin: Bytes(r, size), N: 3}, List: []int{1, 2, 3}}
	}},
	{"S6", "struct-value", typeOf[S6](), func(r *rand.Rand, size int) any {
		return S6{B1: Bytes(r, size/2), B2: Bytes(r, size-size/2), F: 1.5, T: true}
	}},
	{"*S2", "ptr-struct", typeOf[*S2](), func(r *rand.Rand, size int) any { return &S2{Bin: Bytes(r, size), N: r.Intn(100)} }},
	{"*S6", "ptr-struct", typeOf[*S6](), func(r *rand.Rand, size int) any {
		return &S6{B1: Bytes(r, size/2), B2: Bytes(r, size-size/2), F: -2.25, T: false}
	}},
	{"S5", "struct-value", typeOf[S5](), func(r *rand.Rand, size int) any {
		return S5{Bins: []Binary{Bytes(r, size/2), Bytes(r, size-size/2)}, Name: "s5"}
	}},
	{"map-bin", "map", typeOf[map[string]any](), func(r *rand.Rand, size int) any {
		return map[string]any{"bin": Bytes(r, size), "n": float64(5)}
	}},
	{"map-bin-nested", "map", typeOf[map[string]any](), func(r *rand.Rand, size int) any {
		return map[string]any{"a": map[string]any{"b": map[string]any{"c": Bytes(r, size/2)}}, "top": Bytes(r, size-size/2), "s": "x"}
	}},
	{"S7", "ptr-struct", typeOf[S7](), func(r *rand.Rand, size int) any { return S7{Inner: &S2{Bin: Bytes(r, size), N: 1}, N: r.Intn(100)} }},
	// nil Binary leaves, alone in the packet: a nil Binary is still a binary leaf (empty attachment)
	{"Binary-nil", "top", typeOf[Binary](), func(r *rand.Rand, _ int) any { return Binary(nil) }},
	{"S2-nil", "struct-value", typeOf[S2](), func(r *rand.Rand, _ int) any { return S2{Bin: nil, N: r.Intn(100)} }},
	{"[]Binary-nil", "slice", typeOf[[]Binary](), func(r *rand.Rand, _ int) any { return []Binary{nil} }},
	{"[]Binary", "slice", typeOf[[]Binary](), func(r *rand.Rand, size int) any {
		n := 1 + r.Intn(3)
		out := make([]Binary, n)
		for i := range out {
			out[i] = Bytes(r, size/n)
		}
		return out
	}},
}

// ShapeByName returns the named shape.
func ShapeByName(name string) *Shape {
	for i := range Shapes {
		if Shapes[i].Name == name {
			return &Shapes[i]
		}
	}
	return nil
}

var reserved = map[string]bool{
	"connect": true, "connect_error": true, "disconnect": true, "disconnecting": true,
	"newListener": true, "removeListener": true, "connection": true, "error": true, "new_namespace": true,
}

// EventName returns a hostile but legal (non-reserved, non-empty) event name.
func EventName(r *rand.Rand) string {
	for {
		var s string
		switch r.Intn(8) {
		case 0:
			s = ASCII(r, 1+r.Intn(8))
		case 1:
			s = String(r, 1+r.Intn(12))
		case 2:
			s = ASCII(r, 1+r.Intn(4)) + `\`
		case 3:
			s = `"` + ASCII(r, r.Intn(4)) + `"`
		case 4:
			s = ASCII(r, 1+r.Intn(3)) + `\"` + ASCII(r, r.Intn(3))
		case 5:
			s = strings.Repeat(`\`, 1+r.Intn(4))
		case 6:
			s = "1" + ASCII(r, r.Intn(3)) // digits first: could be mistaken for an ack id
		default:
			s = String(r, 1+r.Intn(30))
		}
		if s != "" && !reserved[s] {
			return s
		}
	}
}

// Namespace returns a comma-free namespace starting with '/'.
func Namespace(r *rand.Rand) string {
	fixed := []string{"/", "/a", "/ab", "/a/b", "/A", "/a b", "/ä", "/1", "/a?x=1", "/12/34", "/a#b", `/q"uote`, `/back\slash`, "/[]", "/{}"}
	if r.Intn(3) != 0 {
		return fixed[r.Intn(len(fixed))]
	}
	s := strings.ReplaceAll(String(r, 1+r.Intn(10)), ",", "_")
	return "/" + s
}
