module sioverif

go 1.22

require (
	github.com/anishathalye/porcupine v1.3.0
	github.com/deckarep/golang-set/v2 v2.6.0
	github.com/karagenc/socket.io-go v0.0.0
	github.com/madflojo/testcerts v1.2.0
	github.com/quic-go/webtransport-go v0.8.0
	github.com/sasha-s/go-deadlock v0.3.1
	nhooyr.io/websocket v1.8.11
)

require (
	github.com/fatih/color v1.17.0 // indirect
	github.com/fatih/structs v1.1.0 // indirect
	github.com/karagenc/yeast v0.1.1 // indirect
	github.com/mattn/go-colorable v0.1.13 // indirect
	github.com/mattn/go-isatty v0.0.20 // indirect
	github.com/petermattis/goid v0.0.0-20240716203034-badd1c0974d6 // indirect
	github.com/quic-go/qpack v0.4.0 // indirect
	github.com/quic-go/quic-go v0.45.2 // indirect
	github.com/xiegeo/coloredgoroutine v0.1.1 // indirect
	golang.org/x/crypto v0.25.0 // indirect
	golang.org/x/exp v0.0.0-20240719175910-8a7402abbf56 // indirect
	golang.org/x/net v0.27.0 // indirect
	golang.org/x/sys v0.22.0 // indirect
	golang.org/x/text v0.16.0 // indirect
)

replace github.com/karagenc/socket.io-go => /repo
