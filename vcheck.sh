#!/bin/bash
# Entry point registered in MANIFEST.json:  ./vcheck.sh <ID> quick|thorough [extra args]
# Rebuilds the check (and therefore /repo's current working tree, through the
# `replace` directive) with the hooks enabled, then runs it.
set -u
ID="${1:?usage: vcheck.sh <ID> quick|thorough}"; TIER="${2:-quick}"; shift; shift || true
ROOT="${VERIF_ROOT:-/verif}"
cd "$ROOT" || exit 2
export GOFLAGS=-mod=mod GOPROXY=off GOSUMDB=off GOTOOLCHAIN=local
export VERIF_TIER="$TIER"
id=$(echo "$ID" | tr 'A-Z' 'a-z')
BIN=$ROOT/.work/bin
mkdir -p "$BIN" $ROOT/evidence $ROOT/replays
TAGS=verif
RACE=""
case "$ID" in
  C16) TAGS=verif,sio_deadlock; RACE="-race" ;;
esac
if ! go build -tags "$TAGS" $RACE -o "$BIN/$id" "./checks/$id" 2>"$BIN/$id.build.log"; then
  echo "BUILD FAILED for $ID (see below)"; cat "$BIN/$id.build.log"; exit 2
fi
# Thorough tier: e2e checks get a second, race-detector build that the check runs as a sub-pass.
case "$TIER:$ID" in
  thorough:C01|thorough:C02|thorough:C03|thorough:C04|thorough:C05|thorough:C06|thorough:C07|thorough:C08|thorough:C12|thorough:C15|thorough:C18|thorough:C19)
    if go build -tags "$TAGS" -race -o "$BIN/$id.race" "./checks/$id" 2>"$BIN/$id.race.build.log"; then
      export VERIF_RACE_BIN="$BIN/$id.race"
    else
      echo "RACE BUILD FAILED for $ID"; cat "$BIN/$id.race.build.log"; exit 2
    fi ;;
esac
LIMIT=1500; [ "$TIER" = thorough ] && LIMIT=10800
LOG="$BIN/$id.$TIER.$$.log"
timeout -s QUIT -k 30 "$LIMIT" "$BIN/$id" -tier "$TIER" "$@" 2>&1 | tee "$LOG"
rc=${PIPESTATUS[0]}
if [ $rc -ne 0 ] && [ $rc -ne 1 ]; then
  echo "check $ID ended abnormally (rc=$rc)"
  # The e2e checks run the library in the check process: an unrecovered panic or a runtime fatal error
  # (concurrent map writes, unlock of unlocked mutex, ...) on one of the LIBRARY's goroutines takes the
  # process down before the monitor can speak. That is a violation of the property under test (and of
  # C10/C16 in any case), not a harness failure — provided the first non-runtime frame of the crashing goroutine is in the
  # library (tools/crash_owner.py); a crash in the check's own code stays an abnormal end (rc=2).
  if [ $rc -eq 2 ] && python3 $ROOT/tools/crash_owner.py "$LOG" >/dev/null; then
    mkdir -p "$ROOT/replays/$ID"
    R="$ROOT/replays/$ID/$TIER-process-crash-seed${VERIF_SEED:-1}.txt"
    { echo "check process of $ID died (rc=$rc); crash report and the 100 lines before it:"; grep -a -B100 -A80 -m1 -E '^(panic: |fatal error: )' "$LOG"; } > "$R"
    echo "[$ID] violation sub=process-crash: $(grep -a -m1 -E '^(panic: |fatal error: )' "$LOG" | cut -c1-200)"
    echo "VIOLATION property=$ID replay=$R"
    rm -f "$LOG"
    exit 1
  fi
fi
rm -f "$LOG"
exit $rc
