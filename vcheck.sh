#!/bin/bash
# Entry point registered in MANIFEST.json:  ./vcheck.sh <ID> quick|thorough [extra args]
# Rebuilds the check (and therefore /repo's current working tree, through the
# `replace` directive) with the hooks enabled, then runs it.
set -u
ID="${1:?usage: vcheck.sh <ID> quick|thorough}"; TIER="${2:-quick}"; shift; shift || true
cd /verif || exit 2
export GOFLAGS=-mod=mod GOPROXY=off GOSUMDB=off GOTOOLCHAIN=local
export VERIF_TIER="$TIER"
id=$(echo "$ID" | tr 'A-Z' 'a-z')
BIN=/verif/.work/bin
mkdir -p "$BIN" /verif/evidence /verif/replays
TAGS=verif
RACE=""
case "$ID" in
  C16) TAGS=verif,sio_deadlock; RACE="-race" ;;
esac
if ! go build -tags "$TAGS" $RACE -o "$BIN/$id" "./checks/$id" 2>"$BIN/$id.build.log"; then
  echo "BUILD FAILED for $ID (see below)"; cat "$BIN/$id.build.log"; exit 2
fi
# Thorough tier: e2e checks get a second, race-detector build that the check runs as a sub-pass.
case "$TIER:$ID" in
  thorough:C01|thorough:C02|thorough:C03|thorough:C04|thorough:C05|thorough:C06|thorough:C07|thorough:C08|thorough:C12|thorough:C15|thorough:C18|thorough:C19)
    if go build -tags "$TAGS" -race -o "$BIN/$id.race" "./checks/$id" 2>"$BIN/$id.race.build.log"; then
      export VERIF_RACE_BIN="$BIN/$id.race"
    else
      echo "RACE BUILD FAILED for $ID"; cat "$BIN/$id.race.build.log"; exit 2
    fi ;;
esac
LIMIT=1500; [ "$TIER" = thorough ] && LIMIT=10800
timeout -s QUIT -k 30 "$LIMIT" "$BIN/$id" -tier "$TIER" "$@"
rc=$?
if [ $rc -ne 0 ] && [ $rc -ne 1 ]; then
  echo "check $ID ended abnormally (rc=$rc)"
fi
exit $rc
