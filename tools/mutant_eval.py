#!/usr/bin/env python3
"""Applies a patch to /repo, runs the given checks (quick tier unless --tier), reverts the patch.
Usage: mutant_eval.py <patch.diff> [--tier quick|thorough] [--seed N] [--three-way] [ID ...]
Prints one line per check and writes a JSON summary to stdout's last line (prefix RESULT=)."""
import json, subprocess, sys, os, re, time

args = sys.argv[1:]
patch = args.pop(0)
tier, seed, threeway, reverse = 'quick', '1', False, False
ids = []
while args:
    a = args.pop(0)
    if a == '--tier': tier = args.pop(0)
    elif a == '--seed': seed = args.pop(0)
    elif a == '--three-way': threeway = True
    elif a == '--reverse': reverse = True
    else: ids.append(a)
if not ids:
    ids = [c['property_id'] for c in json.load(open('/verif/MANIFEST.json'))['checks']]

def sh(cmd, **kw):
    return subprocess.run(cmd, shell=True, capture_output=True, text=True, **kw)

st = sh('git -C /repo status --porcelain').stdout.strip()
if st:
    print('REFUSING: /repo is not clean:\n' + st); sys.exit(2)
flags = ('--3way ' if threeway else '') + ('-R ' if reverse else '')
r = sh(f'git -C /repo apply {flags}{patch}')
if r.returncode != 0:
    print('PATCH DOES NOT APPLY:', r.stderr[:500]); sh('git -C /repo checkout -- . ; git -C /repo clean -fdq'); sys.exit(3)
res = {}
try:
    b = sh('cd /repo && GOFLAGS=-mod=mod GOPROXY=off GOSUMDB=off GOTOOLCHAIN=local go build ./... && GOFLAGS=-mod=mod GOPROXY=off GOSUMDB=off GOTOOLCHAIN=local go build -tags verif ./...')
    if b.returncode != 0:
        print('MUTANT DOES NOT BUILD:', b.stderr[:800]); res['_build'] = 'fail'
    else:
        for i in ids:
            t0 = time.time()
            out = f'/verif/.work/mut_{i}.out'
            env = dict(os.environ, VERIF_SEED=seed)
            p = subprocess.run(f'cd /verif && timeout -k 5 2400 ./vcheck.sh {i} {tier} > {out} 2>&1', shell=True, env=env)
            txt = open(out, errors='replace').read()
            classes = sorted(set(re.findall(r'violation class \(\d+ x\): (.*)', txt)))
            viol = len(re.findall(r'^VIOLATION ', txt, re.M))
            res[i] = {'rc': p.returncode, 'violation_lines': viol, 'classes': classes[:6], 'wall_s': round(time.time() - t0, 1)}
            print(f'{i} rc={p.returncode} viol={viol} {round(time.time()-t0)}s {classes[:3]}', flush=True)
finally:
    sh('git -C /repo checkout -- . ; git -C /repo clean -fdq')
    left = sh('git -C /repo status --porcelain').stdout.strip()
    if left:
        print('WARNING: /repo not clean after revert:', left)
print('RESULT=' + json.dumps(res))
