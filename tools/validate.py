#!/usr/bin/env python3
"""Validate MANIFEST.json and every evidence file against the schemas."""
import json, sys, glob
import jsonschema
ok = True
man = json.load(open('/verif/MANIFEST.json'))
try:
    jsonschema.validate(man, json.load(open('/root/.vp/MANIFEST.schema.json')))
    print('MANIFEST ok:', len(man['checks']), 'checks,', len(man.get('not_applicable', [])), 'n/a')
except Exception as e:
    ok = False; print('MANIFEST INVALID', e)
es = json.load(open('/root/.vp/EVIDENCE.schema.json'))
for f in sorted(glob.glob('/verif/evidence/*.json')):
    try:
        ev = json.load(open(f)); jsonschema.validate(ev, es)
        c = ev['coverage']
        print('evidence ok:', f.split('/')[-1], ev['tier'], 'eval', c.get('evaluations'), 'distinct', c.get('distinct_nontrivial'), 'viol', ev.get('violations'), 'wall', round(ev['wall_s'],1))
    except Exception as e:
        ok = False; print('EVIDENCE INVALID', f, str(e)[:300])
ids = {c['property_id'] for c in man['checks']} | {c['property_id'] for c in man.get('not_applicable', [])}
want = {json.loads(l)['id'] for l in open('/verif/properties.jsonl')}
if ids != want:
    ok = False; print('property coverage mismatch', sorted(want - ids), sorted(ids - want))
sys.exit(0 if ok else 1)
