#!/usr/bin/env python3
"""Reads a check's output; if the process died from a Go panic / fatal error, prints 'library' when the
first frame of the crashing goroutine outside the Go runtime / standard library belongs to
karagenc/socket.io-go, 'harness' when it belongs to the check, 'unknown' otherwise. Exit 0 only for 'library'."""
import re, sys
txt = open(sys.argv[1], errors='replace').read()
m = re.search(r'^(panic: |fatal error: ).*$', txt, re.M)
if not m:
    print('none'); sys.exit(3)
rest = txt[m.start():]
g = re.search(r'^goroutine \d+ .*\[.*\]:\n', rest, re.M)
if not g:
    print('unknown'); sys.exit(2)
block = rest[g.end():].split('\n\n')[0]
for line in block.split('\n'):
    if line.startswith('\t') or not line.strip():
        continue
    fn = line.strip()
    first = fn.split('/')[0] if '/' in fn else fn.split('.')[0]
    if fn.startswith('panic(') or fn.startswith('created by') or '.' not in first and not fn.startswith('main.') and not fn.startswith('sioverif'):
        continue  # runtime, sync, reflect, net/http, ...
    if 'karagenc/socket' in fn:
        print('library'); sys.exit(0)
    print('harness'); sys.exit(1)
print('unknown'); sys.exit(2)
