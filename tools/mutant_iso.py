#!/usr/bin/env python3
"""Runs checks against a seeded change WITHOUT touching /repo: a scratch worktree of /repo's HEAD gets the patch, a
copy of /verif (committed + uncommitted files, no .work / replays / seeded / .git) gets its `replace` directive pointed
at that worktree, and the checks run there with VERIF_ROOT set. Several of these can run side by side, and next to
sweeps of the unchanged tree. Everything is removed afterwards.
Usage: mutant_iso.py <seeded-id | patch.diff> [--tier quick|thorough] [--seed N] [--keep] [ID ...]
Appends to seeded/<id>/eval.json when given a seeded id. Last line: RESULT=<json>."""
import json, os, re, shutil, subprocess, sys, time

args = sys.argv[1:]
what = args.pop(0)
tier, seed, keep, ids = 'quick', '1', False, []
while args:
    a = args.pop(0)
    if a == '--tier': tier = args.pop(0)
    elif a == '--seed': seed = args.pop(0)
    elif a == '--keep': keep = True
    else: ids.append(a)
sid = None
if os.path.exists(f'/verif/seeded/{what}/patch.diff'):
    sid, patch = what, f'/verif/seeded/{what}/patch.diff'
    if not ids:
        ids = [what.split('-')[0]]
else:
    patch = os.path.abspath(what)
assert ids, 'no check ids'
tag = (sid or os.path.basename(patch)).replace('/', '_') + f'.{os.getpid()}'
base = f'/tmp/mviso/{tag}'
ENV = dict(os.environ, GOFLAGS='-mod=mod', GOPROXY='off', GOSUMDB='off', GOTOOLCHAIN='local')

def sh(cmd, **kw):
    return subprocess.run(cmd, shell=True, capture_output=True, text=True, env=ENV, **kw)

os.makedirs(base, exist_ok=True)
res = {}
try:
    r = sh(f'git -C /repo worktree add -q --detach {base}/repo HEAD')
    assert r.returncode == 0, r.stderr
    r = sh(f'git -C {base}/repo apply {patch}')
    if r.returncode != 0:
        print('PATCH DOES NOT APPLY:', r.stderr[:500]); sys.exit(3)
    sh(f'rsync -a --exclude .git --exclude .work --exclude replays --exclude seeded --exclude evidence /verif/ {base}/verif/')
    gm = open(f'{base}/verif/go.mod').read().replace('=> /repo', f'=> {base}/repo')
    open(f'{base}/verif/go.mod', 'w').write(gm)
    for i in ids:
        t0 = time.time()
        out = f'{base}/{i}.out'
        env = dict(ENV, VERIF_SEED=seed, VERIF_ROOT=f'{base}/verif')
        p = subprocess.run(f'cd {base}/verif && timeout -k 5 2400 ./vcheck.sh {i} {tier} > {out} 2>&1', shell=True, env=env)
        txt = open(out, errors='replace').read()
        classes = sorted(set(re.findall(r'violation class \(\d+ x\): (.*)', txt)))
        viol = len(re.findall(r'^VIOLATION ', txt, re.M))
        res[i] = {'rc': p.returncode, 'violation_lines': viol, 'classes': classes[:6], 'wall_s': round(time.time() - t0, 1)}
        print(f'{sid or patch} {i} rc={p.returncode} viol={viol} {round(time.time()-t0)}s {classes[:3]}', flush=True)
        if p.returncode not in (0, 1):
            print(txt[-1500:])
    if sid:
        ev = f'/verif/seeded/{sid}/eval.json'
        hist = json.load(open(ev)) if os.path.exists(ev) else []
        hist.append({'tier': tier, 'seed': int(seed), 'checks': ids, 'result': res, 'raw_tail': None, 'isolated': True,
                     'verif_commit': sh('git -C /verif rev-parse --short HEAD').stdout.strip() + ('+dirty' if sh('git -C /verif status --porcelain -- checks internal vcheck.sh').stdout.strip() else ''),
                     'repo_commit': sh('git -C /repo rev-parse --short HEAD').stdout.strip()})
        json.dump(hist, open(ev, 'w'), indent=1)
finally:
    if not keep:
        sh(f'git -C /repo worktree remove --force {base}/repo')
        shutil.rmtree(base, ignore_errors=True)
        sh('git -C /repo worktree prune')
print('RESULT=' + json.dumps(res))
