#!/bin/bash
# usage: tools/round5.sh NN  — confirm the round-5 change of property CNN in a scratch worktree, then run CNN's quick
# check against it in isolation (tools/mutant_iso.py: /repo is not touched)
n=$1
python3 /verif/tools/confirm_mutant.py /tmp/mut5out/c$n A C$n-H | cut -c1-300 || exit 1
python3 - <<PY
import json,sys
m=json.load(open('/verif/seeded/C$n-H/meta.json'))
print('confirmed' if m['confirmation'].get('confirmed') else 'NOT CONFIRMED')
PY
git -C /repo worktree remove --force /tmp/mut5/c$n 2>/dev/null
python3 /verif/tools/mutant_iso.py C$n-H | tail -3
