#!/bin/bash
# usage: tools/round4.sh NN  — confirm the round-5 change of property CNN in a scratch worktree, then run CNN's quick check against it
n=$1
python3 /verif/tools/confirm_mutant.py /tmp/mut5out/c$n A C$n-H || exit 1
python3 - <<PY
import json,sys
m=json.load(open('/verif/seeded/C$n-H/meta.json'))
print('confirmed' if m['confirmation'].get('confirmed') else 'NOT CONFIRMED', json.dumps(m['confirmation'])[:1500])
PY
python3 /verif/tools/eval_seeded.py C$n-H
python3 - <<PY
import json
e=json.load(open('/verif/seeded/C$n-H/eval.json'))[-1]
print(json.dumps(e)[:1500])
PY
git -C /repo status --short | head -3
