#!/usr/bin/env python3
"""Writes /verif/seeded/RESULTS.md from seeded/<id>/{meta.json,eval.json}."""
import json, os

root = '/verif/seeded'
ids = sorted(d for d in os.listdir(root) if os.path.exists(f'{root}/{d}/patch.diff'))
rows, details = [], []
caught_quick = caught_any = 0
for sid in ids:
    meta = json.load(open(f'{root}/{sid}/meta.json'))
    ev = json.load(open(f'{root}/{sid}/eval.json')) if os.path.exists(f'{root}/{sid}/eval.json') else []
    conf = meta.get('confirmation', {})
    runs = []
    first_own_quick = last_own_quick = None
    any_caught = False
    for e in ev:
        for chk, r in (e.get('result') or {}).items():
            if not isinstance(r, dict):
                continue
            caught = r.get('violation_lines', 0) > 0 and r.get('rc') not in (0,)
            if caught and r.get('rc') != 1:
                caught = 'violations printed, but the check ended abnormally (rc=%s)' % r.get('rc')
            any_caught |= bool(caught)
            runs.append((e['verif_commit'], e['tier'], e['seed'], chk, caught, r.get('rc'), r.get('wall_s'), r.get('classes', [])))
            if chk == meta['property'] and e['tier'] == 'quick':
                if first_own_quick is None:
                    first_own_quick = caught
                last_own_quick = caught
    if last_own_quick is True:
        caught_quick += 1
    if any_caught:
        caught_any += 1
    mech = ' '.join(str(meta.get('mechanism', '')).split())
    short = mech[:150] + ('…' if len(mech) > 150 else '')
    def yn(v):
        return '—' if v is None else (v if isinstance(v, str) else ('caught' if v else 'MISSED'))
    others = sorted({c for (_, _, _, c, k, _, _, _) in runs if k and c != meta['property']})
    rows.append(f"| {sid} | {'yes' if conf.get('confirmed') else 'NO'} | {yn(first_own_quick)} | {yn(last_own_quick)} | {', '.join(others) or ''} | {short} |")
    d = [f"### {sid} (property {meta['property']})", '',
         f"* **Change**: {mech}", '',
         f"* **Needs to manifest**: {' '.join(str(meta.get('needs_to_manifest', '')).split())}", '',
         f"* **Demonstration**: `{meta.get('confirmed_demo_cmd', meta.get('demo_run_cmd'))}` with the file copied to `{meta.get('confirmed_demo_copied_to')}` — "
         f"without the change rc={conf.get('without_patch', {}).get('rc')}, with it rc={conf.get('with_patch', {}).get('rc')}; builds and vets: {conf.get('builds_and_vets')}"
         + (f"; note: {meta['note']}" if meta.get('note') else ''), '',
         '* **What I ran** (`tools/mutant_eval.py`: `git -C /repo apply`, `./vcheck.sh <ID> <tier>`, `git -C /repo checkout -- .`):', '']
    for (vc, tier, seed, chk, caught, rc, wall, classes) in runs:
        cl = '; '.join(classes[:3])
        d.append(f"  * verif@{vc} {chk} {tier} seed={seed}: {('CAUGHT' if caught is True else caught) if caught else 'missed'} (rc={rc}, {wall}s){' — ' + cl if cl else ''}")
    d.append('')
    details.append('\n'.join(d))
    meta['what_i_ran'] = {
        'confirmation': 'tools/confirm_mutant.py: scratch worktree of /repo at HEAD outside /repo and /verif, demonstration run without and with the patch (see "confirmation")',
        'checks': [f"verif@{vc}: git -C /repo apply patch.diff; ./vcheck.sh {chk} {tier} (VERIF_SEED={seed}); git -C /repo checkout -- . => "
                   f"{('caught' if caught is True else caught) if caught else 'missed'} (rc={rc}, {wall}s){'; classes: ' + '; '.join(classes[:3]) if classes else ''}"
                   for (vc, tier, seed, chk, caught, rc, wall, classes) in runs]}
    json.dump(meta, open(f'{root}/{sid}/meta.json', 'w'), indent=1)

out = ['# Seeded changes: what the checks catch', '',
       'Each change was written by a fresh sub-agent that saw only the text of one property and its own scratch',
       'worktree of the repository; it compiles, vets, passes the pinned suite and comes with a demonstration.',
       'I confirmed each demonstration in a scratch worktree (fails with the change, passes without) before keeping it.',
       '"first" is the verdict of the property\'s own quick check as it was when the change was first applied,',
       '"now" after the checks were strengthened (see DESIGN.md §7). "also" lists other checks that report it.', '',
       f'{len(ids)} changes; {caught_quick} reported by their own property\'s quick check now; {caught_any} reported by at least one run.', '',
       '| id | demo confirmed | own quick check, first | own quick check, now | also caught by | change |', '|---|---|---|---|---|---|']
out += rows
out += ['', '## Details', ''] + details
open(f'{root}/RESULTS.md', 'w').write('\n'.join(out) + '\n')
print(f'{len(ids)} changes, own quick check now: {caught_quick}, any: {caught_any}')
