#!/usr/bin/env python3
"""Confirms a seeded change in a scratch worktree: the demonstration must FAIL with the patch
and PASS without it. Usage: confirm_mutant.py <outdir> <suffix A|B> <seeded-id>
Copies patch/demo/meta to /verif/seeded/<seeded-id>/ with the confirmation recorded in meta.json."""
import json, os, re, shutil, subprocess, sys

outdir, suf, sid = sys.argv[1], sys.argv[2], sys.argv[3]
WT = '/tmp/confirm_wt'
ENV = dict(os.environ, GOFLAGS='-mod=mod', GOPROXY='off', GOSUMDB='off', GOTOOLCHAIN='local')

def sh(cmd, cwd=None, timeout=900):
    try:
        p = subprocess.run(cmd, shell=True, cwd=cwd, capture_output=True, text=True, env=ENV, timeout=timeout)
        return p.returncode, (p.stdout + p.stderr)
    except subprocess.TimeoutExpired:
        return 124, 'TIMEOUT'

if os.path.exists(WT):
    sh(f'git -C /repo worktree remove --force {WT}')
rc, out = sh(f'git -C /repo worktree add -q --detach {WT} HEAD')
assert rc == 0, out
try:
    meta = json.load(open(f'{outdir}/meta{suf}.json'))
    patch = f'{outdir}/patch{suf}.diff'
    demo_src = None
    for cand in (f'{outdir}/demo{suf}_test.go', f'{outdir}/demo{suf}/main.go', f'{outdir}/demo{suf}.go'):
        if os.path.exists(cand):
            demo_src = cand
    assert demo_src, 'no demo file'
    loctxt = meta.get('demo_location', '').strip()
    cmdtxt = meta['demo_run_cmd']
    # target directory: the package argument of the go test command (./adapter/, ./parser/json/, .)
    pk = re.findall(r'(?:^|\s)(\./[\w./-]*|\.)(?=\s|$)', cmdtxt)
    pkgdir = pk[-1] if pk else '.'
    pkgdir = pkgdir.rstrip('/') or '.'
    if pkgdir == '.':
        m = re.search(r'\b(adapter|parser/json|engine\.io(?:/[\w/]+)?)/[\w-]*_test\.go', loctxt)
        if m:
            pkgdir = './' + m.group(1)
    fn = re.search(r'([\w-]+_test\.go)', loctxt)
    fname = fn.group(1) if fn else os.path.basename(demo_src)
    if demo_src.endswith('main.go'):
        fname = os.path.join('demo' + suf.lower(), 'main.go')
    loc = os.path.normpath(os.path.join(pkgdir, fname))
    dst = os.path.join(WT, loc)
    os.makedirs(os.path.dirname(dst), exist_ok=True)
    shutil.copy(demo_src, dst)
    cmd = meta['demo_run_cmd']
    cmd = re.split(r'\s{2,}\(|\s+\(also ', cmd)[0]
    cmd = re.sub(r'cd /tmp/mut\d?/c\d\d\s*&&\s*', '', cmd)
    cmd = re.sub(r'/tmp/mut\d?/c\d\d', WT, cmd)
    res = {}
    # without the patch
    rc0, out0 = sh(cmd, cwd=WT)
    if 'no tests to run' in out0 or 'no test files' in out0:
        rc0 = 98
    res['without_patch'] = {'rc': rc0, 'tail': out0[-600:]}
    # with the patch
    rca, outa = sh(f'git apply {patch}', cwd=WT)
    if rca != 0:
        rca, outa = sh(f'git apply --3way {patch}', cwd=WT)
    res['patch_applies'] = rca == 0
    if rca == 0:
        rcb, outb = sh('go build ./... && go vet ./... ', cwd=WT)
        res['builds_and_vets'] = rcb == 0
        rc1, out1 = sh(cmd, cwd=WT)
        res['with_patch'] = {'rc': rc1, 'tail': out1[-900:]}
        res['confirmed'] = (rc0 == 0 and rc1 != 0 and rcb == 0)
    else:
        res['confirmed'] = False
        res['apply_error'] = outa[-400:]
    meta['confirmation'] = res
    meta['confirmed_demo_copied_to'] = loc
    meta['confirmed_demo_cmd'] = cmd
    d = f'/verif/seeded/{sid}'
    os.makedirs(d, exist_ok=True)
    shutil.copy(patch, f'{d}/patch.diff')
    shutil.copy(demo_src, f'{d}/' + os.path.basename(demo_src).replace(f'demo{suf}', 'demo'))
    json.dump(meta, open(f'{d}/meta.json', 'w'), indent=1)
    print(sid, 'confirmed=' + str(res['confirmed']), 'without rc', rc0, 'with rc', res.get('with_patch', {}).get('rc'))
finally:
    sh(f'git -C /repo worktree remove --force {WT}')
