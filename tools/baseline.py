#!/usr/bin/env python3
"""Runs the repository's pinned test suite with the verif tag OFF and compares with BASELINE.json:
every stable_pass test must pass. Usage: baseline.py [pkgpattern]"""
import json, subprocess, sys, os
env = dict(os.environ, GOFLAGS='-mod=mod', GOPROXY='off', GOSUMDB='off', GOTOOLCHAIN='local')
pkgs = sys.argv[1:] or ['./...']
p = subprocess.run(['go', 'test', '-mod=mod', '-json', '-vet=off', '-count=1', '-timeout', '25m'] + pkgs,
                   cwd=os.environ.get('BASELINE_DIR', '/repo'), env=env, capture_output=True, text=True)
open('/verif/.work/baseline_raw.json','w').write(p.stdout); open('/verif/.work/baseline_raw.err','w').write(p.stderr)
res = {}
for line in p.stdout.splitlines():
    try:
        e = json.loads(line)
    except Exception:
        continue
    if e.get('Action') in ('pass', 'fail', 'skip') and e.get('Test'):
        res[e['Package'] + '::' + e['Test']] = e['Action']
b = json.load(open('/root/.vp/BASELINE.json'))
stable = b['stable_pass']
if pkgs != ['./...']:
    pk = {k.split('::')[0] for k in res}
    stable = [s for s in stable if s.split('::')[0] in pk]
bad = [s for s in stable if res.get(s) != 'pass']
print('tests seen:', len(res), 'stable expected:', len(stable), 'stable not passing:', len(bad))
for s in bad:
    print('  NOT PASSING:', s, res.get(s))
newfail = [k for k, v in res.items() if v == 'fail' and k not in set(b['always_fail']) | set(b['flaky']) | set(stable)]
for k in newfail:
    print('  other failing (not in baseline lists):', k)
sys.exit(1 if bad else 0)
