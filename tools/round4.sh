#!/bin/bash
# usage: tools/round4.sh NN  — confirm the round-4 change of property CNN in a scratch worktree, then run CNN's quick check against it
n=$1
python3 /verif/tools/confirm_mutant.py /tmp/mut4out/c$n A C$n-G || exit 1
python3 - <<PY
import json,sys
m=json.load(open('/verif/seeded/C$n-G/meta.json'))
print('confirmed' if m['confirmation'].get('confirmed') else 'NOT CONFIRMED', json.dumps(m['confirmation'])[:1500])
PY
python3 /verif/tools/eval_seeded.py C$n-G
python3 - <<PY
import json
e=json.load(open('/verif/seeded/C$n-G/eval.json'))[-1]
print(json.dumps(e)[:1500])
PY
git -C /repo status --short | head -3
