#!/usr/bin/env python3
"""Generates /verif/MANIFEST.json from the table below (one entry per property).
A property whose 'status' is 'na' goes to not_applicable with its reason."""
import json, subprocess

HOOK_COMMITS = subprocess.run(
    ['git', '-C', '/repo', 'log', '--format=%H', '--grep=^verif hooks'],
    capture_output=True, text=True).stdout.split()

BASELINE_OFF = ("cd /repo && GOFLAGS=-mod=mod GOPROXY=off GOSUMDB=off GOTOOLCHAIN=local "
                "go test -mod=mod -json -vet=off -count=1 -timeout 25m ./...")

P = {}

def check(pid, category, text, note, technique, design_ref, thorough=True):
    P[pid] = dict(status='check', category=category, text=text, note=note,
                  technique=technique, design_ref=design_ref, thorough=thorough)

def na(pid, reason):
    P[pid] = dict(status='na', reason=reason)

# ---------------------------------------------------------------------------
check('C09', 'exploration',
      "Runtime monitor over generated packets: every produced frame sequence is decoded by an independent v5 reference codec "
      "(format), by the real decoder into the same static types and into the generic any-family (round trip), the caller's value "
      "graph is snapshotted before and compared after Encode, the same values are encoded twice, and reference-encoded frames are "
      "fed to the real decoder. Held on the N generated packets listed in the evidence; nothing is proved for other inputs.",
      "Trusts encoding/json's data model for canonical trees and the reference codec written from the protocol text; default stdjson serializer only.",
      "reference-model monitor (independent codec) + snapshot comparison over seeded generated inputs", "DESIGN.md §3 C09")

check('C10', 'exploration',
      "Part 1: every first frame up to length 4 (quick) / 6 (thorough) over a 16-symbol protocol alphabet plus continuation frames, grammar-aware mutations "
      "(placeholder numbers, attachment counts, truncation at every byte, seeded byte edits) is fed to the real Parser.Add and every finished packet is decoded "
      "against 11 handler-signature families (incl. a struct with nil-able pointer, interface, recursive, map and slice fields) under recover() and a progress watchdog. Part 2: the hostile sequences are sent by a raw protocol peer to a real server "
      "in a child process; monitors: child exit status, canary round trip, and 'reported' (connection closed or error handler invoked) for sequences the parser rejects.",
      "Panics are visible through recover() in part 1 and as child death in part 2; the Go-client mirror of part 2 is covered only in-process (a parser panic there is process-fatal by construction).",
      "exhaustive small-input enumeration + grammar mutation under recover/watchdog monitors; child-process canary", "DESIGN.md §3 C10")

check('C19', 'exploration',
      "Forced schedules through hooks H1/H2: the consumer is parked exactly between its emptiness check and its wait while producers/close/reset run; every placement of "
      "1..3 producers x second consumer x closer is executed on the real pollQueue/packetQueue (conservation, contiguity, no consumer blocked with a non-empty queue at "
      "quiescence, close hand-shake). Plus unforced stress, a lonely-packet ping-pong on the real sender loop (a packet added while the sender finishes the previous Send, nothing afterwards), an end-to-end latency monitor over real long-polling with the window widened by a sleep hook, and the Socket.IO layer above the queues: 1..8 emitters at full speed from before Connect() until a moment after the connect handler, then silence — every event handed to Emit must reach the wire of a raw Engine.IO server without later traffic (nothing strands in the client's offline send buffer).",
      "Relies on the hook call sites staying between check and wait; 'stranded' is observed 250 ms after logical quiescence while the consumer's own timeout is 1 h.",
      "hook-gated forced-schedule enumeration + conservation/latency monitors", "DESIGN.md §3 C19")

check('C01', 'exploration',
      "sio<->sio worlds over real loopback TCP: every emission carries a unique id and one argument of a registry shape (ints, floats, unicode strings, structs/maps/slices with sio.Binary "
      "leaves) at sizes across the 126/32 KiB/64 KiB frame boundaries up to ~1 MB, over polling, websocket and polling->websocket, recovery off/on, both directions, 1..3 clients, 1/4/16 "
      "emitting goroutines (in 'across-connect' cells the client's emitters start before Connect()); in the mixed-shapes cells every emission takes one of the public routes {Emit, Timeout(d).Emit, and server side Namespace.To(own room).Emit / Compress(true) / Local().In(own room) through the adapter (with recovery on these carry an offset the client strips)}; per event name two typed recording handlers, a third On handler, a Once handler registered before any event (exactly one call if any event arrived) and an On handler registered while the first event is being dispatched, plus decoy handlers on look-alike event names; offline multiset oracle (lost / duplicate / corrupted / misdelivered) and "
      "'no lifecycle callback in a fault-free run'. Thorough adds volume and a pass under the race detector.",
      "Loss is concluded 30 s after an acked wire fence; events are emitted only after the connection handler has registered the handlers; generic any-typed handlers are excluded (C09 known finding).",
      "unique-id event log + multiset/digest oracle over real client/server worlds", "DESIGN.md §3 C01")

check('C02', 'exploration',
      "(a) wire: a raw protocol peer independent of the repository's engine.io code records MESSAGE frames; a strict reference assembler (header -> exactly N binary frames) turns any "
      "interleaving into a protocol error; per-emitter sequence numbers must increase; s->c via raw client, c->s via a raw Engine.IO server, on polling / websocket / after a completed upgrade, "
      "1..16 emitters, 0..4 attachments; c->s also across the connect (1/2/4 emitters start before Connect() and run through the flush of the offline buffer). (b) handler-entry order in sio<->sio worlds, incl. a variant where every second event carries ~300 KB (decoding outlasts the dispatch grace); "
      "rare inversions are the known finding (per-packet dispatch goroutines), systematic ones (>= 10 and >= 10 % of a case) are violations.",
      "Order across the swap itself is C07's; ping/pong/noop between frames are ignored.",
      "independent wire observer + strict reassembly state machine + per-emitter monotonicity", "DESIGN.md §3 C02")

check('C03', 'exploration',
      "Ack trials in sio<->sio worlds (polling, websocket, upgraded; both directions): reply delay swept over {0, T/2, the race band T-2ms..T+2ms in 0.25 ms steps, 2T, never} for T in {20,100,400 ms}, "
      "0/2 attachments, responder calling its ack function once / twice / twice concurrently, all trials of a direction outstanding at once; per-emission callback counter and reply-token "
      "oracle (at most once; exactly once with a timeout, decided at timeout+10 s; reply token or ErrAckTimeout with zero values); wire-level ACK count per id through a raw peer; "
      "big replies (~600 KB, slow to decode) timed into the race band one at a time after measuring their round trip; "
      "offline (never connected) timeouts with 0..3 attachments followed by connect, probe round trip and server-side 'purged event not seen / no error / no disconnect'; link cut mid-flight (also with reconnection and new ack-carrying emits while the old timers still run); timed emits that also carry the volatile flag, offline and after a disconnection (nothing is sent, the timer answers once); "
      "the client's retry queue (ClientSocketConfig.Retries 1..3 + AckTimeout): prompt server, first reply late inside / outside the time-out, link cut while the head is pending so that a superseded try's timer or reply arrives after the packet was settled, a second packet held in flight at that moment: caller's ack function at most once / exactly once / right reply / success only if the server received it, first receipts in emission order.",
      "No outcome is prescribed inside the race band; a late reply reported to error handlers ('ACK with ID n not found') is not counted as a violation.",
      "callback-count + reply-token monitor over timing sweeps; wire observer; post-condition probes", "DESIGN.md §3 C03")

check('C17', 'exploration',
      "The complete request matrix (8 methods incl. PATCH, a raw-line CONNECT and an unknown token x EIO x transport x sid{absent,unknown,live,closed} x b64 x jsonp), run twice (live session on polling and on WebSocket; thorough: three cell "
      "orders each) against a real server over loopback HTTP with a set-valued protocol-table oracle and per-cell side-effect and liveness monitors; 1e5/1e6 generated ids and hundreds of "
      "concurrent live handshakes pairwise distinct; 60/600 rounds of handshakes racing Server.Close (seeded offsets, sleeping Authenticator or slow NewSocketCallback) decided by a counting "
      "oracle plus a porcupine 3-state model at quiescence with a 15 s watchdog.",
      "Fault-to-code table transcribed from the Engine.IO v4 protocol; one-mutex callback recorder; VerifSessionCount (store size); porcupine v1.3.0.",
      "exhaustive request matrix with table oracle + state-invariance monitors; seeded Close races with counting/porcupine oracle", "DESIGN.md §3 C17")

check('C04', 'exploration',
      "Exhaustive over all 512x8x8 (membership matrix, T, E) cells of 3 sockets x 3 rooms at adapter level, each through Adapter.Broadcast, operator chains, reused parent operators and "
      "socket-issued broadcasts; seeded random histories (3000/60000, <= 40 ops, 4x4, disconnect and fresh-id reconnect) in lock-step with a set-comprehension model with the index invariant, "
      "index snapshot and all queries checked after every step; concurrent rounds judged by interval semantics plus porcupine linearizability of membership ops per socket id; real-server "
      "fence-based end-to-end runs with recovery off and on; a Join-vs-Disconnect stress. Thorough re-runs the concurrent parts under the race detector.",
      "Harness fake socket at adapter level (the real serverSocket is covered end to end); Go map-iteration guarantee that an entry present throughout is produced exactly once; per-connection FIFO for the fence argument; porcupine v1.3.0.",
      "executable reference model in lock-step (exhaustive small scope + generated histories with shrinking); interval-semantics and porcupine checks over recorded histories; wire-fence absence verdicts", "DESIGN.md §3 C04")

check('C06', 'fault_enumeration',
      "Cause x phase trials (10 termination causes x {before CONNECT, inside a parked namespace middleware, connected idle, mid-burst c->s, mid-burst s->c, during the polling->websocket "
      "upgrade, two namespaces, Join/Leave storm on the closing socket, second namespace's CONNECT parked while the first socket runs a slow disconnecting handler} x transport) driven by a raw protocol peer through a byte-accurate TCP fault proxy; scripted sessions cut at every k-th byte (k=1 on websocket in thorough) in "
      "each direction; several causes fired at once; the socket's admission held at a wrapped adapter (public AdapterCreator) while the cause is injected; sessions being opened by 8 goroutines while Server.Close runs; a connection handler that registers its handlers late; the Go client closing its Manager during its own held handshake; with connection-state recovery on, the connection ending (abort, CLOSE packet, Server.Close) while its CONNECT restores a persisted session (RestoreSession held at a wrapped session-aware adapter; control: no fault => recovered and a room member again). Monitors: per-socket counters on connection/disconnecting/disconnect handler entry with the reported reason, and a quiescent-point "
      "sweep over Namespace.Sockets, the adapter index (invariant + snapshot hook), the Engine.IO session-count hook and an HTTP probe with the old sid.",
      "Quiescence = sweep stable and clean under a watchdog of pingInterval+pingTimeout+15 s; allowed reason sets per cause are the monitor's reading of 'a reason naming the cause'.",
      "fault injection (proxy cuts/black-holes, parked middleware) + handler-entry counters + quiescent-state sweep through invariant hooks", "DESIGN.md §3 C06")

check('C11', 'exploration',
      "Differential monitor on the real engine.io/parser and WebTransport framer: single packets over type x text/binary x raw/base64 x writer kind x payload classes x sizes, payloads of 0..8 packets, "
      "WebTransport frames of every encoded length 0..70000 (thorough: exhaustive; quick: 0..300, boundaries and a stride) read back through the server-side limitedReader path and the client path, "
      "whole and chunked; real bytes vs an independent v4 reference codec both ways; EncodedLen/EncodedPayloadsLen/length prefix vs bytes really written; limits {16,4096,1e6,0}; random and mutated "
      "byte strings through every decoder under recover(); child process (GOGC=off, RLIMIT_AS) measuring the TotalAlloc delta of one read for headers announcing up to 2^64-1 bytes.",
      "Reference codec written from the Engine.IO v4 text; TotalAlloc on a single goroutine as allocation measure with an honest-frame control; the end-to-end part opens real WebTransport sessions (HTTP/3 over QUIC on loopback UDP, webtransport-go dialer + reference framer, not the repository's client): frames around the three length forms within MaxBufferSize must reach OnPacket and be echoed intact in order, frames announcing more than MaxBufferSize (written in pieces below the limit) must never be delivered.",
      "differential testing vs independent reference codec; exhaustive length enumeration; fuzzing under recover(); child-process allocation monitor", "DESIGN.md §3 C11")

check('C07', 'fault_enumeration',
      "eio<->eio rig (real Engine.IO server and real Go client) through a TCP fault proxy that slows the WebSocket upgrade connection so that numbered text/binary messages (every 97th one 33..113 KB) of both sides keep flowing "
      "through the swap (1 or 8 goroutines per side inside Send), or holds it back so that the server's first PING is queued on polling at the swap, or holds the polling connections beyond the client's upgrade timeout while the websocket answers at once, or refuses / stalls (1 s timeouts) / cuts it at every 8th (quick: 24th) byte of the websocket byte stream in each direction, under three traffic patterns. Oracle: multiset "
      "equality of sent and received numbers at a fence (exactly once while the connection lives, at most once when it legitimately dies after the client swapped), TransportName() on both "
      "sides, close callbacks counted, Send bounded by a 60 s hang watchdog. WebTransport part: the same traffic and oracle over polling->WebTransport upgrades of the Go client against the real server over real QUIC on loopback UDP, through a datagram relay {clean, 3 ms per datagram, black hole (attempt fails, polling continues), black hole then a websocket attempt (must end on websocket), dark after the k-th datagram for k over the QUIC handshake, CONNECT, OPEN, probe and UPGRADE}; after a successful swap a second numbered round and fence.",
      "A cut after the client swapped legitimately kills the connection; order across the swap is not demanded; WebTransport faults are whole-datagram (delay, black hole, darkness after the k-th datagram), not byte cuts.",
      "fault proxy / datagram relay on the upgrade connection + numbered-message multiset oracle + hang watchdog", "DESIGN.md §3 C07")

check('C12', 'exploration',
      "Real server on loopback; the finite admission matrix is enumerated completely in both tiers: 66 namespace-middleware chains (length 0..5 x first rejection position x kind error/string/struct/map) x 2 "
      "namespaces x {1, 8 concurrent clients} x {Go client, raw peer}. Safety facts (order, nothing listed / in a room / reachable by a broadcast before all middlewares accepted or after a rejection, "
      "handler after rejection) are checked on a logical-clock log with state snapshots and tokenised broadcasts taken inside the parked middlewares; CONNECT / CONNECT_ERROR payloads and broadcast "
      "non-delivery are observed on the wire by an independent peer behind an acked fence. Event middlewares: 10 configurations x 7 handler signatures x 2 client kinds, one event in flight per socket; client-asked-for-ack x handler-takes-ack combinations. "
      "Part 3 (sampled): many self-identifying events of one socket inside a 2..3-middleware chain at once (name/arguments belong together, chain order, no handler after rejection); admission under "
      "connection-state recovery x UseMiddlewares x CONNECT auth {none, made-up pid (+offset), empty pid+offset} x {rejecting, accepting} middleware.",
      "Client<->socket mapping through the CONNECT auth payload; fence soundness relies on one FIFO packet queue per connection; absence concluded only after fence + 15 s. A structured rejection carried in the 'message' field is counted, not flagged (library design).",
      "recorded-history monitor over an exhaustively enumerated configuration space; in-middleware snapshots; raw wire observer with positive control", "DESIGN.md §3 C12")

check('C13', 'exploration',
      "Enforcement: an independent raw peer sends one message of transport-level size L-1, L, L+1, 2L, 10L and seeded sizes declared four ways (POST with Content-Length, chunked POST, websocket text, websocket "
      "binary, and websocket text/binary on a session opened on polling and upgraded) to real servers with MaxBufferSize 200, 4096, default 1e6, disabled; monitors: server packet callback (length + content hash), close callback, live-session count, what the sender saw. "
      "Acceptance: real Go client <-> real server over polling, websocket and polling upgraded to websocket, both directions, text and binary, at the frame-header steps, the 32 KiB library default, L-1 and L, incl. multi-packet Send. "
      "Batcher: the client's real writeWritablePackets behind VerifSplitBatches enumerated exhaustively (thorough: all vectors of <= 6 data lengths over {0,1,2,3,5,8,13} x all text/binary assignments x "
      "maxPayload 0..45) with pointer-exact conservation and 'every multi-packet batch fits maxPayload'.",
      "Size = size as the transport sees it; limit n admits exactly n bytes; absence verdicts after 15 s; the exhaustive flag refers to the batcher part only.",
      "raw peer with server-side callback recorder (size-declaration matrix) + exactly-once monitor + exhaustive enumeration of the real batch splitter", "DESIGN.md §3 C13")

check('C14', 'fault_enumeration',
      "Silent black-holes (TCP stays open, data and FIN dropped) of a real eio server <-> real Go eio client link at 4 (quick) / 8 (thorough) placements over the heartbeat schedule (time-anchored before a ping, "
      "event-anchored between ping and pong and after the pong; 'upgrading': at the ws upgrade request, mid-handshake, at UpgradeDone, at the server's transport switch) x {both, c2s-only, s2c-only} x "
      "{polling, websocket, upgraded, upgrading} x (pingInterval, pingTimeout) in {(1,1),(2,1)} quick / {1,2,3 s}^2 thorough; plus live-peer trials (idle, phase-offset traffic, traffic locked onto the ping/pong instants, a dense server stream around every ping, over 5 heartbeat periods; live peers whose upgrade is timed so that the first PING is queued on polling at the swap). "
      "Oracle: every side that lost its peer runs OnClose within t0+pingInterval+pingTimeout+1.5 s with reason 'ping timeout', hearing sides within their stated bound, no premature ping timeout, no close on a healthy link.",
      "Local strict black-hole relay; monotonic clock; 5 ms scheduler-jitter canary (stall > 250 ms => trial inconclusive, 2 retries); 1.5 s slack; not run under -race.",
      "fault injection with event-synchronous placement + bracketed time bounds + jitter canary", "DESIGN.md §3 C14")

check('C18', 'exploration',
      "The real handlerStore and eventHandlerStore stepped in lock-step with a set-valued reference model on seeded On/Once/Off/OffAll/Fire sequences (20k/300k per store) and on every program of length <= 4 "
      "(thorough <= 5) over 20 operations x 3 handlers, with per-operation blame and shrinking; the same model through all 17 public lifecycle families, the 3 OnEvent/OnceEvent/OffEvent families and 4 OffAll "
      "methods with real occurrences over loopback; Once at-most-once and absence of panics under 8..16 racing goroutines at registry level (counters + porcupine linearizability of recorded histories) and end "
      "to end; thorough adds a race-detector sub-pass.",
      "Handlers are distinct function literals (closures of one literal share a code pointer); for a handler registered k times the model accepts 'all removed' or 'one per naming'; 15 s watchdog for absence verdicts; porcupine v1.3.0.",
      "model-based lock-step (random + bounded-exhaustive) + API-level monitoring with real occurrences + counters/porcupine under concurrency", "DESIGN.md §3 C18")

check('C08', 'exploration',
      "Adapter level: the real session-aware adapter (window and clean-up period through a verif constructor, clean-up passes counted by a hook) driven with generated histories of namespace / room-with-exclusions / "
      "direct broadcasts (text, binary, ack-carrying) over 3 sessions x 3 rooms, one or two sessions lost at every point k and restored one after the other from the same log, clean-up period {off, 2 ms, 10 ms}, reconnect gap on both sides of the window; RestoreSession compared "
      "with an executable model of the log (missed list, identity, replayed frames re-encoded and decoded by the reference codec). A steady broadcast stream concurrent with 1 ms clean-up passes around a lost session. End to end: raw protocol peer tracking the offset itself, and the real Go client "
      "reconnecting through a TCP proxy cut (recovered flag on both sides, exactly-once across the reconnect, also across a second outage right after the recovery without live traffic in between).",
      "Time is bracketed: must-recover only when an upper bound of the elapsed time is inside the window and the offset entry is provably unexpired (or the cleaner is off), must-not only when a lower bound is outside. Binary leaves nested in maps / behind pointers inside logged packets are not exercised (C09 known finding).",
      "reference model of the recovery log + bracketed time + hook-counted clean-up passes; raw wire observer", "DESIGN.md §3 C08")

check('C15', 'fault_enumeration',
      "Back-off function over the full (min, max incl. max<min, jitter incl. out of range, attempt incl. overflowing) grid with 50/200 draws per jittered cell and 80-step sequences; real Managers against an "
      "independent raw Engine.IO/Socket.IO server behind a killable listener, enumerating outage kind {connection refused, accept+reset, HTTP 503, accept+stall-then-heal} x pattern {down for good, down at first "
      "connect, down for j failures then restored, flapping} x ReconnectionAttempts 0..5 x jitter x transports: exact event counts (attempts == limit, reconnect_failed once, nothing afterwards), announced delays "
      "against min(max, min*2^n*(1+-j)), cumulative lower and per-gap upper clock brackets; offline emits (non-volatile / volatile / ack-carrying, 1..3 namespaces) issued at stable offline points and observed on "
      "the raw server's wire with a delayed CONNECT reply: exactly once, in order, after the namespace was accepted, volatile never; forced window H5; hot emitters (1..8 goroutines emitting without pause through the connect: per goroutine the wire must read 0,1,2,... and nothing may stay stuck); ack-carrying binary emits whose timeout expires offline; user stop/restart in the middle of a reconnection series (Socket.Disconnect+Connect / Manager.Close+Open after 1..3 failed attempts, server still away): the restarted client keeps attempting and connects after the restore.",
      "Lifecycle handlers run asynchronously, so only counts, cumulative lower bounds from a synchronous start stamp and canary-gated upper bounds are verdicts; 'never reconnected' only >= 15 s after restore with attempts stopped.",
      "fault-pattern enumeration over a killable-listener rig; event-count and wire-log monitors; reference back-off model; jitter canary; hook H5", "DESIGN.md §3 C15")

check('C05', 'exploration',
      "Go programs: namespace sets of size 1..4 drawn from 11 look-alike names (prefixes of one another, digits, spaces, unicode, '?'), multiplexed on one Manager or on separate Managers, CONNECT reply order permuted "
      "by per-namespace middleware delays, 40 interleaved steps {emit c->s, emit s->c, acks both ways, namespace broadcast} with every payload tagged by its namespace, concurrent bursts on all namespaces from both sides, then a single-namespace disconnect and probe "
      "round trips on all the others; oracle: set membership on the recorded log (a handler / ack / broadcast recorder of X only ever sees payloads tagged X). Raw protocol peer: 8 kinds of packets for namespaces "
      "that are not joined or whose CONNECT is parked in a middleware must close the connection without any handler running; leaving and re-joining one namespace in a single payload must not hurt a neighbour; a connection whose CONNECT for a namespace was rejected after a middleware's Join receives nothing of that namespace; a namespace ending (refused by a middleware, disconnected by the client, disconnected by the server) while the CONNECT of another namespace on the same Manager is still parked in a slow middleware leaves that namespace alone: it connects, a probe round-trips, no disconnect event; an event sent right after the CONNECT reply must be served (unforced and with hook H4 "
      "widening the admission window).",
      "The Go client normalises '' to '/', so that pair is exercised through the raw peer only.",
      "tagged-payload membership oracle over generated programs; raw wire peer for invalid-state packets; hook-widened admission window", "DESIGN.md §3 C05")

check('C16', 'exploration',
      "Built with -race -tags verif,sio_deadlock. A seeded generator produces concurrent API programs (2..16 goroutines x 15..40 operations drawn from 46 public operations on server, namespace, server socket, manager, "
      "client socket and adapter; a third of the event / ack / connection / disconnecting / disconnect handler invocations issue an operation themselves, and the Manager's open / close / reconnect / reconnect_attempt / error handlers additionally stop and restart their own Manager or one of its sockets (Disconnect+Connect, Close+Open), emit on it or create sockets; transports and recovery vary), run in one child process per "
      "GOMAXPROCS value (quick {16,4}, thorough {1,2,4,16}) with random yields at hooks H1/H2/H4/H5. Monitors: Go race detector (halt_on_error=0, reports attributed by the first non-runtime frame of the two "
      "accesses, only repository frames count), go-deadlock through the repository's internal/sync aliases (lock wait > 45 s with a stuck or vanished holder = violation, lock-order reports = warnings), a 60 s per-operation watchdog with goroutine "
      "dump, and child exit status (fatal errors such as concurrent map access).",
      "A clean race-detector run only covers accesses that were executed concurrently in these runs; the evidence lists the distinct pairs of operation kinds observed overlapping. The other e2e checks add race-detector sub-passes in their thorough tiers.",
      "race detector + instrumented mutexes (go-deadlock) + per-operation hang watchdog over generated concurrent API programs", "DESIGN.md §3 C16")

for pid in ['C01','C02','C03','C04','C05','C06','C07','C08','C10','C11','C12','C13','C14','C15','C16','C17','C18','C19']:
    if pid not in P:
        na(pid, "check not built yet in this round (planned, see DESIGN.md §3); not claimed until its monitor runs clean on the unchanged tree")

# ---------------------------------------------------------------------------
checks, nas = [], []
for pid in sorted(P):
    e = P[pid]
    if e['status'] == 'na':
        nas.append({'property_id': pid, 'reason': e['reason']})
        continue
    c = {
        'property_id': pid,
        'quick_cmd': f'./vcheck.sh {pid} quick',
        'evidence_file': f'/verif/evidence/{pid}.json',
        'engine': 'vcheck',
        'level_claimed': {'category': e['category'], 'text': e['text'], 'design_ref': e['design_ref']},
        'level_note': e['note'],
        'technique': e['technique'],
        'replay_cmd_template': f'./vcheck.sh {pid} quick -replay {{path}}',
    }
    if e['thorough']:
        c['thorough_cmd'] = f'./vcheck.sh {pid} thorough'
    checks.append(c)

manifest = {
    'version': 1,
    'setup_cmd': './setup.sh',
    'hooks': {
        'guard': 'verif',
        'enable': "go build -tags verif (the checks are Go programs in /verif that import /repo through a replace directive; "
                  "vcheck.sh rebuilds them, and thereby /repo's working tree, on every invocation)",
        'baseline_off_cmd': BASELINE_OFF,
        'source_commits': HOOK_COMMITS,
        'add_only': True,
    },
    'engines': [{
        'name': 'vcheck', 'path': '/verif/vcheck.sh',
        'serves_properties': [c['property_id'] for c in checks],
        'kind_free_text': 'runtime monitoring: Go workloads driving the real packages under recorders, reference models, hooks, the race detector and go-deadlock',
    }],
    'checks': checks,
    'not_applicable': nas,
    'notes': "All checks are runtime monitors (family: runtime monitoring and sanitizers). known_findings.json lists genuine defects that are recorded rather than repaired and the fix: commits made in /repo.",
}
json.dump(manifest, open('/verif/MANIFEST.json', 'w'), indent=1)
print('wrote MANIFEST.json:', len(checks), 'checks,', len(nas), 'not applicable')
