#!/bin/bash
# Runs every registered check's quick command sequentially; prints one line per check.
cd /verif
tier=${1:-quick}
for id in $(python3 -c "import json; print(' '.join(c['property_id'] for c in json.load(open('MANIFEST.json'))['checks']))"); do
  t0=$(date +%s)
  timeout -k 5 3000 ./vcheck.sh $id $tier > .work/$id.$tier.out 2>&1; rc=$?
  t1=$(date +%s)
  echo "$id rc=$rc $((t1-t0))s $(grep -c '^KNOWN-FINDING' .work/$id.$tier.out) known | $(tail -1 .work/$id.$tier.out | cut -c1-110)"
done
