#!/bin/bash
# Runs every registered check (or the ids given after the tier) sequentially; prints one line per check.
# usage: tools/runall.sh quick|thorough [ID ...]
cd /verif
tier=${1:-quick}
ids="${@:2}"
[ -z "$ids" ] && ids=$(python3 -c "import json; print(' '.join(c['property_id'] for c in json.load(open('MANIFEST.json'))['checks']))")
for id in $ids; do
  t0=$(date +%s)
  timeout -k 5 4000 ./vcheck.sh $id $tier > .work/$id.$tier.out 2>&1; rc=$?
  t1=$(date +%s)
  echo "$id rc=$rc $((t1-t0))s $(grep -c '^KNOWN-FINDING' .work/$id.$tier.out) known | $(tail -1 .work/$id.$tier.out | cut -c1-110)"
done
