#!/usr/bin/env python3
"""Runs the relevant check(s) against every seeded change under /verif/seeded (or the ids given):
apply the patch to /repo, run the check, undo. Results are appended to seeded/<id>/eval.json.
usage: eval_seeded.py [--tier quick|thorough] [--seed N] [--checks C01,C02] [seeded-id ...]"""
import json, os, subprocess, sys, time
args = sys.argv[1:]
tier, seed, checks, ids = 'quick', '1', None, []
while args:
    a = args.pop(0)
    if a == '--tier': tier = args.pop(0)
    elif a == '--seed': seed = args.pop(0)
    elif a == '--checks': checks = args.pop(0).split(',')
    else: ids.append(a)
root = '/verif/seeded'
if not ids:
    ids = sorted(d for d in os.listdir(root) if os.path.exists(f'{root}/{d}/patch.diff'))
for sid in ids:
    prop = sid.split('-')[0]
    cs = checks or [prop]
    t0 = time.time()
    p = subprocess.run(['python3', '/verif/tools/mutant_eval.py', f'{root}/{sid}/patch.diff', '--tier', tier, '--seed', seed] + cs,
                       capture_output=True, text=True)
    res = None
    for line in p.stdout.splitlines():
        if line.startswith('RESULT='):
            res = json.loads(line[7:])
    ev = f'{root}/{sid}/eval.json'
    hist = json.load(open(ev)) if os.path.exists(ev) else []
    hist.append({'tier': tier, 'seed': int(seed), 'checks': cs, 'result': res, 'raw_tail': p.stdout[-600:] if res is None else None,
                 'verif_commit': subprocess.run('git -C /verif rev-parse --short HEAD', shell=True, capture_output=True, text=True).stdout.strip(),
                 'repo_commit': subprocess.run('git -C /repo rev-parse --short HEAD', shell=True, capture_output=True, text=True).stdout.strip()})
    json.dump(hist, open(ev, 'w'), indent=1)
    summ = ' '.join(f"{k}:{'CAUGHT' if v.get('rc') == 1 and v.get('violation_lines', 0) > 0 else 'rc=%s' % v.get('rc')}" for k, v in (res or {}).items() if isinstance(v, dict))
    print(f'{sid} [{tier}] {summ} {round(time.time()-t0)}s', flush=True)
